#!/usr/bin/env python3
"""Print the seeded-change catch matrix (markdown) from seeded/*/meta.json."""
import glob, json, os
ROOT = os.path.dirname(os.path.dirname(os.path.abspath(__file__)))
rows = []
for d in sorted(glob.glob(os.path.join(ROOT, "seeded", "*"))):
    mp = os.path.join(d, "meta.json")
    if not os.path.exists(mp):
        continue
    m = json.load(open(mp))
    sid = os.path.basename(d)
    det = sorted(set(m.get("detected_by_quick", [])) | set(m.get("detected_by_thorough", [])))
    only_thorough = sorted(set(m.get("detected_by_thorough", [])) - set(m.get("detected_by_quick", [])))
    inc = sorted(set(m.get("inconclusive_quick", [])) - set(det))
    target = m.get("property") or sid.split("-")[0]
    hit = "yes" if target in det else ("other checks only" if det else "NO")
    rows.append((sid, m.get("summary", "")[:110], "yes" if m.get("confirmed") else "no", ", ".join(det) + (f" (thorough only: {', '.join(only_thorough)})" if only_thorough else ""),
                 ", ".join(inc), hit))
print("| seeded change | what it is | confirmed | checks reporting VIOLATION | inconclusive | own property's check |")
print("|---|---|---|---|---|---|")
for r in rows:
    print("| " + " | ".join(r) + " |")
print()
print(f"{len(rows)} seeded changes; caught by their own property's check: {sum(1 for r in rows if r[5]=='yes')}; by other checks only: "
      f"{sum(1 for r in rows if r[5]=='other checks only')}; missed: {sum(1 for r in rows if r[5]=='NO')}")
