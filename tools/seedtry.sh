#!/bin/bash
# usage: tools/seedtry.sh <seed id> <check id> [extra check args]   -- run one check against a scratch worktree with the seeded change
set -u
seed=$1; chk=$2; shift 2
wt=/tmp/m_$seed.$$
git -C /repo worktree add --detach -q $wt HEAD || exit 3
git -C $wt apply /verif/seeded/$seed/patch.diff || { git -C /repo worktree remove --force $wt; exit 3; }
mkdir -p $wt/_ev $wt/_rp
VERIF_REPO_SRC=$wt/src VERIF_EVID_DIR=$wt/_ev VERIF_REPLAY_DIR=$wt/_rp /verif/check $chk --tier quick "$@" 2>&1 | tee /tmp/seedtry.log | grep -v "^$" | cut -c1-400 | tail -12
rc=${PIPESTATUS[0]}
git -C /repo worktree remove --force $wt
echo "seed=$seed check=$chk exit=$rc"
