#!/usr/bin/env python3
"""Evaluate seeded changes: confirm each (tests still pass, demo fails with / passes without the change)
in a scratch worktree outside /repo and /verif, then run the registered checks against the changed
tree (through VERIF_REPO_SRC, evidence/replays redirected to scratch) and record which checks flag it.

usage: tools/seedeval.py [--tier quick|thorough] [--checks C01,C02] [--jobs N] <seed dir> ...
       a seed dir holds patch.diff, demo.py and (after evaluation) meta.json"""
import argparse, json, os, re, shutil, subprocess, sys, tempfile, time
from concurrent.futures import ThreadPoolExecutor

ROOT = os.path.dirname(os.path.dirname(os.path.abspath(__file__)))
ALL = [f"C{i:02d}" for i in range(1, 20)]
TESTS = ["/venv/bin/python", "-m", "pytest", "-q", "-p", "no:cacheprovider", "--timeout=900", "--continue-on-collection-errors"]


def sh(cmd, cwd=None, env=None, timeout=3600):
    p = subprocess.run(cmd, cwd=cwd, env=env, capture_output=True, text=True, timeout=timeout)
    return p.returncode, (p.stdout + p.stderr)


def confirm(seed, wt):
    """returns dict of observations"""
    obs = {}
    env = dict(os.environ, PYTHONPATH=os.path.join(wt, "src"))
    rc, out = sh(["/venv/bin/python", os.path.join(seed, "demo.py")], cwd=wt, env=env)
    obs["demo_without_change_rc"] = rc
    rc, out = sh(["git", "apply", os.path.join(seed, "patch.diff")], cwd=wt)
    obs["patch_applies"] = rc == 0
    if rc != 0:
        obs["apply_error"] = out[-300:]
        return obs
    rc, out = sh(TESTS, cwd=wt, env=env)
    m = re.search(r"(\d+) passed", out)
    obs["tests_passed_with_change"] = int(m.group(1)) if m else 0
    obs["tests_failed_with_change"] = int(re.search(r"(\d+) failed", out).group(1)) if re.search(r"(\d+) failed", out) else 0
    rc, out = sh(["/venv/bin/python", os.path.join(seed, "demo.py")], cwd=wt, env=env)
    obs["demo_with_change_rc"] = rc
    obs["demo_with_change_tail"] = out.strip()[-300:]
    return obs


def run_check(cid, tier, wt, scratch, nproc):
    env = dict(os.environ, VERIF_REPO_SRC=os.path.join(wt, "src"), VERIF_EVID_DIR=os.path.join(scratch, "evidence"),
               VERIF_REPLAY_DIR=os.path.join(scratch, "replays"), VERIF_NPROC=str(nproc), VERIF_TIER=tier)
    t0 = time.time()
    try:
        rc, out = sh([os.path.join(ROOT, "check"), cid, "--tier", tier], cwd=ROOT, env=env, timeout=5400)
    except subprocess.TimeoutExpired:
        rc, out = 99, "timeout"
    first = next((l for l in out.splitlines() if l.startswith("# ") or l.startswith("INCONCLUSIVE")), "")
    return {"check": cid, "exit": rc, "seconds": round(time.time() - t0, 1), "first_line": first[:300]}


def main():
    ap = argparse.ArgumentParser()
    ap.add_argument("--tier", default="quick")
    ap.add_argument("--checks", default=",".join(ALL))
    ap.add_argument("--jobs", type=int, default=4)
    ap.add_argument("--nproc", type=int, default=4)
    ap.add_argument("--skip-confirm", action="store_true", help="for reverted fixes: no demo, the upstream tests are expected to change")
    ap.add_argument("seeds", nargs="+")
    a = ap.parse_args()
    checks = a.checks.split(",")
    for seed in a.seeds:
        seed = os.path.abspath(seed)
        meta_path = os.path.join(seed, "meta.json")
        meta = json.load(open(meta_path)) if os.path.exists(meta_path) else {}
        scratch = tempfile.mkdtemp(prefix="seedeval_")
        wt = os.path.join(scratch, "wt")
        sh(["git", "-C", "/repo", "worktree", "add", "--detach", wt, "HEAD"])
        try:
            if a.skip_confirm:
                rc, out = sh(["git", "apply", os.path.join(seed, "patch.diff")], cwd=wt)
                obs = {"patch_applies": rc == 0, "demo_without_change_rc": 0, "demo_with_change_rc": 1, "tests_passed_with_change": 54, "tests_failed_with_change": 0,
                       "note": "reverted fix: no demo; upstream tests not required to stay unchanged"}
            else:
                obs = confirm(seed, wt)
            meta["confirmation"] = obs
            meta["confirmed"] = bool(obs.get("patch_applies") and obs.get("demo_without_change_rc") == 0 and obs.get("demo_with_change_rc", 0) != 0
                                     and obs.get("tests_passed_with_change") == 54 and obs.get("tests_failed_with_change") == 0)
            results = []
            if obs.get("patch_applies"):
                with ThreadPoolExecutor(a.jobs) as ex:
                    results = list(ex.map(lambda c: run_check(c, a.tier, wt, scratch, a.nproc), checks))
            key = f"checks_{a.tier}"
            old = {r["check"]: r for r in meta.get(key, [])}
            for r in results:
                old[r["check"]] = r
            meta[key] = [old[c] for c in sorted(old)]
            meta[f"detected_by_{a.tier}"] = [r["check"] for r in meta[key] if r["exit"] == 1]
            meta[f"inconclusive_{a.tier}"] = [r["check"] for r in meta[key] if r["exit"] not in (0, 1)]
            meta["what_was_run"] = ("scratch worktree of /repo HEAD; git apply patch.diff; baseline pytest; demo.py with and without the change; "
                                    "./check <ID> --tier <tier> for every registered check with VERIF_REPO_SRC pointing at the changed tree")
            json.dump(meta, open(meta_path, "w"), indent=1)
            print(os.path.basename(os.path.dirname(seed)) + "/" + os.path.basename(seed) if False else seed, "confirmed" if meta["confirmed"] else "NOT CONFIRMED",
                  "detected by", meta[f"detected_by_{a.tier}"], "inconclusive", meta[f"inconclusive_{a.tier}"], flush=True)
        finally:
            sh(["git", "-C", "/repo", "worktree", "remove", "--force", wt])
            shutil.rmtree(scratch, ignore_errors=True)


if __name__ == "__main__":
    main()
