REAL = ("exact real arithmetic over the expression DAG the real code builds (IEEE rounding/overflow outside); "
        "NumPy indexing/broadcast and CasADi SXFunction/expand semantics trusted and validated numerically each run; "
        "z3 5.1.0 qfnra-nlsat decides, transcendental functions abstracted with solver-proven congruence + true lemmas")

CHECKS = [
    {"id": "C01", "category": "model_checking",
     "text": "Bounded SMT check: for every topology of the family, every next-state component of the real NumPy step (symbolic execution, all paths) and of the compiled CasADi function (SX/MX IR) is proven equal to the Hegyi reference model for ALL real states/controls/disturbances/parameters in the admissible domain; counterexamples are replayed on the float code. Bound = topology family (programs), not values.",
     "note": REAL + "; oracle abstentions: mainstream origin only for v_lim/v_free>=0.05, lane gain outside lane-drop clause",
     "technique": "symbolic execution of the real code + SMT (z3 nlsat) equivalence against a reference model, per topology",
     "also": ["sx2smt", "discharge"]},
    {"id": "C02", "category": "model_checking",
     "text": "Bounded SMT check without oracle: for every topology of the family and every encoding of the real step (NumPy symbolic paths, SX/MX IR), the vehicle balance at every node and the network-wide balance (derived compositionally: per-link telescoping lemmas + node balances + a linear-combination query) are proven for ALL real inputs and parameters; thorough also attempts the network-wide equation directly.",
     "note": REAL + "; balance computed from the function's own inputs/outputs, all positivity options off",
     "technique": "symbolic execution of the real code + SMT (z3 nlsat) proof of balance identities, per topology",
     "also": ["sx2smt", "discharge"]},
    {"id": "C03", "category": "translation_validation",
     "text": "Translation validation per program (topology x compactness level x more_out x SX|MX x symbolic|numeric parameters): the IR of the function returned by the real Engine.to_function is proven equal, component by component and for ALL real arguments, to the symbolic run of the real NumPy engine on the same network (inputs bound by the documented layout).",
     "note": REAL + "; numeric mode uses dyadic parameter values (exact float folding), mainstream origins only with symbolic parameters; lanes numeric on the CasADi side when phi is given",
     "technique": "compiler-IR (CasADi SXFunction) to SMT translation + SMT equivalence with the symbolically executed NumPy step",
     "engine": "sx2smt", "also": ["symx+fork", "discharge"]},
    {"id": "C07", "category": "model_checking",
     "text": "Bounded SMT check: for every topology of the family (each accepted by the real is_valid) and a covering set of positivity options / input styles, the real NumPy step is executed symbolically on all paths and the CasADi step + 12 compilations are executed; no path may raise, shapes must be preserved, and for every output component of the NumPy run and of the level-0 IR the solver proves 'admissible domain (zeros included) AND path => value defined (no division by zero, log of non-positive, invalid power)'. Exceptions and non-finite models are replayed on floats.",
     "note": REAL + "; finiteness = definedness over the reals (overflow outside); min/max treated as NaN-propagating; engine-own-variable and boundary-point runs are plain execution companions",
     "technique": "path-exhaustive symbolic execution of the real code + SMT proof of definedness obligations, per topology",
     "also": ["sx2smt", "discharge"]},
    {"id": "C15", "category": "model_checking",
     "text": "Bounded SMT check over all primitives of the engine interface (16) in every option variant and argument shape the element layer produces (0-d, length 1..3): the real NumPy primitive executed symbolically (all paths) and the IR of the real CasADi primitive (SX and MX) are proven equal for ALL reals, and both are proven defined (finite) on the admissible domain including boundary zeros.",
     "note": REAL + "; DM evaluation of CasADi primitives trusted (sampled in encoder validation); vector lengths <= 3",
     "technique": "symbolic execution of both engines' primitives + SMT (z3 nlsat) equivalence and definedness proofs",
     "also": ["sx2smt", "discharge"]},
    {"id": "C17", "category": "model_checking",
     "text": "Bounded SMT check: the bounds 0 <= q <= min(d + w/T, capacity), full first segment => q = 0, and w+ >= 0 are proven for ALL admissible tuples on the real origin-flow primitives of both engines (all variants, 0-d and length-1) and, on the topology family, on the flow the real Network.step actually uses (recovered from the queue update and as reported by the compiled function), with the parameters of the link the origin feeds.",
     "note": REAL + "; mainstream capacity clause modulo the analytic lemma L-cap (listed under assumptions); unlimited simplified ramp outside the statement",
     "technique": "symbolic execution of the real code + SMT (z3 nlsat) proof of inequalities, lemma-instantiated transcendental abstraction",
     "also": ["sx2smt", "discharge"]},
]
_TODO = "check not built yet in this session (machinery in progress); see DESIGN.md section 3"
NOT_APPLICABLE = [{"property_id": f"C{i:02d}", "reason": _TODO} for i in (4, 5, 6, 8, 9, 10, 11, 12, 13, 14, 16, 18, 19)]
