REAL = ("exact real arithmetic over the expression DAG the real code builds (IEEE rounding/overflow outside); "
        "NumPy indexing/broadcast and CasADi SXFunction/expand semantics trusted and validated numerically each run; "
        "z3 5.1.0 qfnra-nlsat decides, transcendental functions abstracted with solver-proven congruence + true lemmas")

CHECKS = [
    {"id": "C01", "category": "model_checking",
     "text": "Bounded SMT check: for every topology of the family, every next-state component of the real NumPy step (symbolic execution, all paths) and of the compiled CasADi function (SX/MX IR) is proven equal to the Hegyi reference model for ALL real states/controls/disturbances/parameters in the admissible domain; counterexamples are replayed on the float code. Bound = topology family (programs), not values.",
     "note": REAL + "; oracle abstentions: mainstream origin only for v_lim/v_free>=0.05, lane gain outside lane-drop clause",
     "technique": "symbolic execution of the real code + SMT (z3 nlsat) equivalence against a reference model, per topology",
     "also": ["sx2smt", "discharge"]},
]
_TODO = "check not built yet in this session (machinery in progress); see DESIGN.md section 3"
NOT_APPLICABLE = [{"property_id": f"C{i:02d}", "reason": _TODO} for i in range(2, 20)]
