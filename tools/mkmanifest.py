#!/usr/bin/env python3
"""Regenerate /verif/MANIFEST.json from the table below (kept in one place so it stays valid)."""
import json, os, sys

ROOT = os.path.dirname(os.path.dirname(os.path.abspath(__file__)))
sys.path.insert(0, ROOT)
from tools.manifest_table import CHECKS, NOT_APPLICABLE  # noqa

BASE = ("cd /repo && /venv/bin/python -m pytest -ra -q -p no:cacheprovider --timeout=900 "
        "--continue-on-collection-errors")
m = {
    "version": 1,
    "setup_cmd": "bin/ensure_env.sh",
    "hooks": {
        "guard": "SYM_METANET_VERIF",
        "enable": "no hooks are needed: the checks run /repo/src unmodified (PYTHONPATH=/repo/src); the guard variable is exported by ./check but read by nothing in /repo",
        "baseline_off_cmd": BASE,
        "source_commits": [],
        "add_only": True,
    },
    "engines": [
        {"name": "symx+fork", "path": "vlib/symx.py", "kind_free_text": "symbolic execution of the real NumPy engine / element layer on z3-term object arrays, path-exhaustive fork executor"},
        {"name": "sx2smt", "path": "vlib/sx2smt.py", "kind_free_text": "CasADi SXFunction instruction list (compiler IR) -> z3 terms"},
        {"name": "discharge", "path": "vlib/discharge.py", "kind_free_text": "UF abstraction with solver-proven congruence + lemmas, qfnra-nlsat ladder, cvc5 cross-check"},
        {"name": "crosshair", "path": "checks/crosshair", "kind_free_text": "CrossHair 0.0.110 harnesses (symbolic str / list inputs)"},
    ],
    "checks": [],
    "not_applicable": NOT_APPLICABLE,
    "notes": "All checks: ./check <ID> --tier quick|thorough ; exit 0 held / 1 VIOLATION / 2 INCONCLUSIVE. Replays: ./check <ID> --replay <path>.",
}
for c in CHECKS:
    pid = c["id"]
    m["checks"].append({
        "property_id": pid,
        "quick_cmd": f"./check {pid} --tier quick",
        "thorough_cmd": f"./check {pid} --tier thorough",
        "evidence_file": f"evidence/{pid}.json",
        "replay_cmd_template": f"./check {pid} --replay {{path}}",
        "engine": c.get("engine", "symx+fork"),
        "level_claimed": {"category": c["category"], "text": c["text"], "design_ref": c.get("design_ref", f"DESIGN.md section 3, {pid}")},
        "level_note": c["note"],
        "technique": c["technique"],
    })
for e in m["engines"]:
    e["serves_properties"] = [c["id"] for c in CHECKS if c.get("engine", "symx+fork") == e["name"] or e["name"] in c.get("also", [])]
with open(os.path.join(ROOT, "MANIFEST.json"), "w") as f:
    json.dump(m, f, indent=1)
print("MANIFEST.json:", len(m["checks"]), "checks,", len(NOT_APPLICABLE), "not applicable")
