"""C09 -- construction calls build exactly the described graph; malformed paths are rejected.

 (a) CrossHair (symbolic execution with z3) on the real Network.add_path: the path is a symbolic
     list of tags {Node, Link, other} up to a length bound, with/without origin and destination;
     contract: accepted <=> well-formed, refusals are TypeError/ValueError, every graph node is a
     Node, an accepted path yields exactly the described nodes/edges/attachments.  A reachability
     twin (must be refuted) guards against vacuity.
 (b) fork-executor one-step harness (vlib.histcheck): from every symbolic pre-state, every
     construction call of the API is executed by the real code and net.graph is compared with an
     abstract set/dict model (nodes, edge -> link object, node -> origin / destination with
     replacement); malformed paths (9 shapes x origin/destination) must raise the documented
     error and never leave a non-node object in the graph.  Bounded real histories of length <= 3/4
     from the empty network complement the one-step scheme."""
from __future__ import annotations

import itertools
import os
import re
import sys
import time

import z3

from vlib import chrun, dfork, harness, histcheck as H

PID = "C09"
CH = os.path.join(harness.ROOT, "checks", "crosshair", "ch_c09.py")


def work(item):
    kind = item[0]
    if kind == "ch":
        return work_ch(item)
    if kind == "hist":
        return work_hist(item)
    if kind == "bad":
        return work_bad(item)
    _, opi, naming = item
    H.set_naming(naming)
    label, real, model_fn, _ = H.operations()[opi]
    out = {"item": f"{label}/{naming}", "paths": 0, "violations": [], "inconclusive": [], "samples": []}

    def fn():
        U = H.Universe()
        bits = H.symbolic_bits()
        net, m = H.build_pre(U, bits)
        H.touch(net, 0x7FF)  # everything has been looked at before the call
        real(net, U)
        model_fn(m)
        return bits, H.graph_matches_model(net, U, m)

    for pr in dfork.run_all(fn):
        out["paths"] += 1
        if pr.exc is not None:
            out["violations"].append(viol("step", label, dfork.model_of(pr.pc), f"raised {type(pr.exc).__name__}: {pr.exc}", None))
            continue
        bits, problems = pr.value
        if problems:
            out["violations"].append(viol("step", label, bits, "; ".join(problems), None))
        elif out["paths"] == 9:
            out["samples"].append({"pre_state": bits, "call": label, "graph_equals_model": True})
    return out


def work_bad(item):
    _, bi, with_o, with_d, naming = item
    H.set_naming(naming)
    label, seq, exc_t = H.malformed_paths()[bi]
    out = {"item": f"malformed:{label}/{naming}", "paths": 0, "violations": [], "inconclusive": [], "samples": []}

    def fn():
        U = H.Universe()
        bits = H.symbolic_bits()
        net, m = H.build_pre(U, bits)
        p = [U.nodes[s] if s in U.nodes else U.links[s] if s in U.links else U.junk for s in seq]
        raised = None
        try:
            net.add_path(p, origin=U.origins["O2"] if with_o else None, destination=U.dests["D2"] if with_d else None)
        except (TypeError, ValueError) as e:
            raised = type(e).__name__
        nonnodes = [U.name_of(x) for x in net.graph.nodes if not isinstance(x, U.M.Node)]
        return bits, raised, nonnodes

    for pr in dfork.run_all(fn):
        out["paths"] += 1
        spec = {"kind": "bad", "seq": list(seq), "with_o": with_o, "with_d": with_d}
        if pr.exc is not None:
            out["violations"].append(viol("bad", label, dfork.model_of(pr.pc), f"malformed path {seq} raised {type(pr.exc).__name__} (not TypeError/ValueError): {pr.exc}", spec))
            continue
        bits, raised, nonnodes = pr.value
        if raised is None:
            out["violations"].append(viol("bad", label, bits, f"malformed path {seq} ({label}) was accepted (origin={with_o}, destination={with_d})", spec))
        if nonnodes:
            out["violations"].append(viol("bad", label, bits, f"after malformed path {seq}: non-node objects {nonnodes} are nodes of the graph", spec))
        if out["paths"] == 3:
            out["samples"].append({"pre_state": bits, "malformed_path": list(seq), "raised": raised})
    return out


def viol(kind, label, bits, what, spec):
    b = {k: (v in (True, "True")) for k, v in bits.items()}
    rec = {"property": PID, "kind": kind, "bits": b, "op": label, "naming": H.NODE_NAMING}
    if spec:
        rec.update(spec)
    nm = "" if H.NODE_NAMING == "distinct" else " (node C is also called 'A')"
    return {"key": f"c09:{kind}:{label}:{H.NODE_NAMING}:{sorted(k for k, v in b.items() if v)}:{what[:50]}", "group": f"{kind}:{label}:{what[:40]}",
            "what": f"pre-state {b}{nm}; {label}: {what}", "replay": rec}


def work_hist(item):
    _, first, length, naming = item
    H.set_naming(naming)
    from checks.c08 import HIST_OPS

    ops = {o[0]: o for o in H.operations()}
    out = {"item": f"hist:{first}/{naming}", "paths": 0, "violations": [], "inconclusive": [], "samples": []}
    seq = ()
    for tail in itertools.product(HIST_OPS, repeat=length - 1):
        seq = (first,) + tail
        U = H.Universe()
        net = U.Network(name="h")
        m = H.Model()
        out["paths"] += 1
        try:
            for k, nm in enumerate(seq):
                ops[nm][1](net, U)
                ops[nm][2](m)
                problems = H.graph_matches_model(net, U, m)
                if problems:
                    out["violations"].append({"key": f"c09:hist:{seq[:k+1]}:{naming}", "group": f"hist:{nm.split('(')[0]}", "what": f"history {list(seq[:k+1])} (node naming: {naming}): {problems}",
                                              "replay": {"property": PID, "kind": "hist", "seq": list(seq[:k + 1]), "naming": naming}})
                    break
        except Exception as e:  # noqa
            out["violations"].append({"key": f"c09:hist-exc:{seq}:{naming}", "what": f"history {list(seq)} (node naming: {naming}) raised {e!r}",
                                      "replay": {"property": PID, "kind": "hist", "seq": list(seq), "naming": naming}})
    out["samples"].append({"history": list(seq), "graph_equals_model_after_every_call": True})
    return out


def work_ch(item):
    _, func, maxlen, timeout_s = item
    out = {"item": f"crosshair:{func}:len<={maxlen}", "paths": 0, "violations": [], "inconclusive": [], "samples": [], "ch": {}}
    # the harness reads MAXLEN from its source: run a copy with the bound patched (scratch file next to evidence, removed afterwards)
    src = open(CH).read().replace("MAXLEN = 4", f"MAXLEN = {maxlen}")
    tmp = os.path.join(harness.ROOT, "checks", "crosshair", f"_ch_c09_{maxlen}_{func}_{os.getpid()}.py")
    with open(tmp, "w") as f:
        f.write(src)
    try:
        st, txt, dt = chrun.run(tmp, func, timeout_s)
    finally:
        os.remove(tmp)
    out["ch"] = {"function": func, "maxlen": maxlen, "status": st, "seconds": round(dt, 1), "text": txt[-300:]}
    twin = func.endswith("twin")
    if twin:
        if st != "refuted":
            out["inconclusive"].append(f"crosshair reachability twin not refuted ({st}): harness may be vacuous")
    elif st == "refuted":
        m = re.search(r"when calling add_path_contract\((\[.*?\]), (True|False), (True|False)\)", txt)
        tags, wo, wd = (eval(m.group(1)), m.group(2) == "True", m.group(3) == "True") if m else ([0, 1], False, False)
        ok = replay_tags(tags, wo, wd, verbose=False)
        if not ok:
            out["violations"].append({"key": f"c09:crosshair:{tags}", "group": "crosshair:add_path",
                                      "what": f"add_path with element kinds {tags} (0 Node, 1 Link, 2 other), origin={wo}, destination={wd} violates the contract (accepted <=> well-formed, "
                                              f"errors are TypeError/ValueError, graph nodes are Nodes, graph as described): {txt[-200:]}",
                                      "replay": {"property": PID, "kind": "tags", "tags": tags, "with_o": wo, "with_d": wd}})
        else:
            out["inconclusive"].append(f"crosshair counterexample {tags} does not reproduce")
    elif st != "confirmed":
        out["inconclusive"].append(f"crosshair {func} len<={maxlen}: {st}: {txt[-200:]}")
    out["samples"].append(out["ch"])
    return out


def replay_tags(tags, wo, wd, verbose=True):
    import importlib.util

    spec = importlib.util.spec_from_file_location("ch_c09", CH)
    mod = importlib.util.module_from_spec(spec)
    spec.loader.exec_module(mod)
    mod.MAXLEN = max(len(tags), 1)
    ok = mod.add_path_contract(tags, wo, wd)
    if verbose:
        print(f"add_path contract on element kinds {tags}, origin={wo}, destination={wd}: {'holds' if ok else 'VIOLATED'}")
    return ok


def replay(rec):
    H.set_naming(rec.get("naming", "distinct"))
    U = H.Universe()
    ops = {o[0]: o for o in H.operations()}
    if rec["kind"] == "tags":
        return 0 if replay_tags(rec["tags"], rec["with_o"], rec["with_d"]) else 1
    if rec["kind"] == "hist":
        net, m = U.Network(name="h"), H.Model()
        problems = []
        for nm in rec["seq"]:
            ops[nm][1](net, U)
            ops[nm][2](m)
            problems = H.graph_matches_model(net, U, m)
        print(f"history {rec['seq']}: {problems or 'graph equals the described graph'}")
        return 1 if problems else 0
    net, m = H.build_pre(U, rec["bits"])
    if rec["kind"] == "bad":
        seq = rec["seq"]
        p = [U.nodes[s] if s in U.nodes else U.links[s] if s in U.links else U.junk for s in seq]
        raised = None
        try:
            net.add_path(p, origin=U.origins["O2"] if rec["with_o"] else None, destination=U.dests["D2"] if rec["with_d"] else None)
        except Exception as e:  # noqa
            raised = e
        nonnodes = [U.name_of(x) for x in net.graph.nodes if not isinstance(x, U.M.Node)]
        print(f"malformed path {seq}: raised {raised!r}; non-node graph nodes: {nonnodes}")
        return 1 if (not isinstance(raised, (TypeError, ValueError)) or nonnodes) else 0
    ops[rec["op"]][1](net, U)
    ops[rec["op"]][2](m)
    problems = H.graph_matches_model(net, U, m)
    print(f"pre-state {rec['bits']}; {rec['op']}: {problems or 'graph equals the described graph'}")
    return 1 if problems else 0


def main():
    args = harness.Args(PID)
    if args.replay:
        sys.exit(replay(harness.load_replay(args.replay)))
    t0 = time.time()
    from checks.c08 import HIST_OPS

    maxlen, cht = (6, 900) if args.thorough else (3, 300)  # generous: the run stops as soon as all paths are confirmed
    items = [("ch", "add_path_contract", maxlen, cht), ("ch", "add_path_reachability_twin", 3, 60)]
    NAMINGS = ("distinct", "shared")  # shared: two of the three node objects carry the same name
    items += [("step", i, nm) for i in range(len(H.operations())) for nm in NAMINGS]
    items += [("bad", i, wo, wd, nm) for i in range(len(H.malformed_paths())) for wo in (False, True) for wd in (False, True) for nm in NAMINGS]
    hl = 4 if args.thorough else 3
    items += [("hist", f, hl, nm) for f in HIST_OPS for nm in (NAMINGS if args.thorough else NAMINGS[:1])]
    results = harness.pmap(work, items, args.serial)
    viol_, inc, samples, ch = [], [], [], []
    paths = hist = 0
    for r in results:
        if "error" in r:
            inc.append(f"{r['item']}: worker error {r['error']}")
            continue
        viol_ += r["violations"]
        inc += r["inconclusive"]
        if r["item"].startswith("hist"):
            hist += r["paths"]
        else:
            paths += r["paths"]
        samples += r["samples"][:1]
        if r.get("ch"):
            ch.append(r["ch"])
    cov = {
        "states": paths, "transitions": paths, "traces_validated_against_impl": hist, "evaluations": paths + hist, "distinct_nontrivial": paths + hist,
        "rule": "state = (symbolic pre-state, construction call | malformed path shape x origin/destination): one real execution each, graph compared with the abstract model; "
                "traces = real histories from the empty network; CrossHair decides the add_path contract over all tag lists within the length bound",
        "crosshair": ch, "mutating_calls": len(H.operations()), "malformed_shapes": len(H.malformed_paths()), "history_length": hl,
        "functions_encoded": ["Network.add_path (CrossHair, symbolic list of element kinds)", "Network.add_node(s)/add_link(s)/add_origin/add_destination/add_path (fork executor)"],
        "samples": samples[:10] or [{"note": "none"}],
        "exhaustive": not viol_ and not inc,
    }
    assumptions = [f"CrossHair bound: path length <= {maxlen}, element kinds {{Node, Link, other}}; 'Confirmed over all paths' required, anything else is inconclusive",
                   "universe of the fork harness: 3 nodes (named distinctly on a plain Network; and with two of them sharing a name on an instance of a user subclass of Network), 2 links, 2 origins, 2 destinations, 64 pre-states; every variable control-determining (solver-driven exhaustive exploration)"]
    harness.finish(args, "model_checking", cov, assumptions, viol_, inc, t0)


if __name__ == "__main__":
    main()
