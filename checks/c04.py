"""C04 -- function arguments/results follow the network's element order at every level.

Structural facts of the real artifact are read directly (argument/result names, sizes, count,
has_free, declared parameters trailing / stacked); the *semantic* half is decided by z3:
 (a) level 0: the result named '<state>_<element>+' at position k is the METANET successor of the
     state argument at position k (names bound from the function's own signature; a permuted
     successor makes the query sat) -- element by element, segment by segment;
 (b) levels 1 and 2 are the level-0 function up to the documented concatenation: with arguments
     bound through the layout derived from the network's own enumeration order, every entry of
     every result equals the corresponding level-0 entry (SX and MX, with/without extra outputs,
     with/without declared parameters);
 (c) feed-back well-formedness: result k has the size of state argument k."""
from __future__ import annotations

import random
import sys
import time

import z3

from vlib import compiled, discharge, families, harness, layout, netcheck, numrun, ref_metanet, runs, symx, sx2smt, topo as T_, zeval

PID = "C04"


def work(item):
    tj, symtype, more_out, pmode, seed, timeout_ms = item[:6]
    bits = item[6] if len(item) > 6 else 0
    flags = runs.flags_of(bits)
    topo = T_.Topo.from_json(tj)
    rng = random.Random(seed)
    tag = f"{symtype}/{'mo' if more_out else 'no'}/{pmode}/opts{bits:06b}"
    acc = netcheck.Acc(f"{topo.name}:{tag}")
    ex = acc.d["extra"]
    ex["structural_facts"] = 0
    prover = discharge.Prover(timeout_ms=timeout_ms, seed=seed)
    base_numeric = netcheck.casadi_numeric_for(topo) or {}
    allp = [p for p in T_.param_names(topo) if p not in base_numeric]
    if pmode == "all":
        declare = list(allp)
    elif pmode == "none":
        declare = []
    else:  # a rotated, reversed subset: declared order differs from the natural order
        declare = [p for k, p in enumerate(reversed(allp)) if (k + seed) % 2 == 0]
    from checks.c03 import numeric_params

    numvals = numeric_params(topo, seed)
    numeric = {p: numvals[p] for p in base_numeric}
    for p in allp:
        if p not in declare:
            numeric[p] = numvals[p]
    if any(k == "main" for _, k in topo.origins.values()) and pmode != "all":
        # keep the mainstream link's exponent parameters symbolic (their folded V_crit is a transcendental float)
        for node, (o, k) in topo.origins.items():
            if k == "main":
                l = topo.out_links(node)[0]
                for pn in (f"a_{l.name}", f"vfree_{l.name}", f"rhocrit_{l.name}"):
                    if pn not in declare:
                        declare.append(pn)
                        numeric.pop(pn, None)
    D = [netcheck.apply_numeric(c, numeric) for c in ref_metanet.admissible_domain(topo)]
    D = [c for c in D if not z3.is_true(z3.simplify(c))]
    levels = {}
    for compact in (0, 1, 2, 3, -1):  # levels: <= 0, == 1, > 1 (documented); 3 and -1 must behave like 2 and 0
        try:
            levels[compact] = compiled.compile_terms(topo, symtype, numeric, compact, more_out, flags, declare, check_names=True)
            acc.d["encodings"] += 1
        except compiled.LayoutMismatch as e:
            acc.exec_violation(PID, topo, f"casadi[{tag}/c{compact}]", "array", f"layout: {e}", extra={"numeric": numeric, "compact": compact, "more_out": more_out})
        except (symx.UnsupportedOp, symx.Inconclusive) as e:
            acc.exec_violation(PID, topo, f"casadi[{tag}/c{compact}]", "array", f"layout: {e}", extra={"numeric": numeric, "compact": compact, "more_out": more_out})
        except Exception as e:  # noqa
            acc.exec_violation(PID, topo, f"casadi[{tag}/c{compact}]", "array", f"raised {type(e).__name__}: {str(e)[:300]}", extra={"numeric": numeric, "compact": compact, "more_out": more_out})
    if 0 not in levels:
        return acc.done(prover)
    c0 = levels[0]
    F0 = c0.F
    # ---- structural facts, level 0
    n_state = sum(1 for nm, _ in c0.outs if nm.endswith("+"))
    names_in, names_out = c0.names_in(), c0.names_out()
    facts = [
        (not F0.has_free(), "function has free symbols"),
        (names_in[len(names_in) - len(declare):] == list(declare) if declare else True, f"declared parameters are not the trailing arguments in declared order: {names_in} vs {declare}"),
        (F0.n_in() == len(c0.ins), "argument count"),
    ]
    for k in range(n_state):
        facts.append((names_out[k] == names_in[k] + "+", f"result {k} '{names_out[k]}' is not the successor of argument {k} '{names_in[k]}'"))
        facts.append((F0.size_out(k) == F0.size_in(k), f"result {k} has size {F0.size_out(k)}, state argument {k} has size {F0.size_in(k)} (cannot be fed back)"))
    for c in (1, 2, 3):
        if c in levels:
            Fc = levels[c].F
            facts.append((not Fc.has_free(), f"level {c} function has free symbols"))
            if declare:
                facts.append((Fc.name_in(Fc.n_in() - 1) == "p" and Fc.size1_in(Fc.n_in() - 1) == len(declare), f"level {c}: stacked parameter vector p missing or of wrong size"))
            facts.append((Fc.size_out(0) == Fc.size_in(0) or c == 1, f"level {c}: x+ has size {Fc.size_out(0)}, x has size {Fc.size_in(0)}"))
    for ok, msg in facts:
        ex["structural_facts"] += 1
        if not ok:
            acc.exec_violation(PID, topo, f"casadi[{tag}]", "array", f"structure: {msg}", extra={"numeric": numeric, "more_out": more_out})
    # ---- (a) level 0 results are the METANET successors of the same-position state arguments
    QUANT = {"rho": "density", "v": "speed", "w": "queue"}
    zmax0 = lambda t: z3.If(z3.RealVal(0) >= t, z3.RealVal(0), t)
    ref = ref_metanet.Ref(topo, clamp_init=lambda kind, t: zmax0(t) if flags[f"positive_init_{kind}"] else t)
    for slot, s in c0.slot.items():
        if slot[0] != "next":
            continue
        _, el, stn, i = slot
        r = ref.next[(el, stn)][i]
        if flags[f"positive_next_{QUANT[stn]}"]:
            r = zmax0(r)
        r = netcheck.apply_numeric(r, numeric)
        dom = D + [netcheck.apply_numeric(c, numeric) for c in ref.extra_domain.get((el, stn, i), [])]

        def on_sat(model, slot=slot, r=r):
            env = netcheck.model_env(topo, model, rng, numeric)
            got = levels[0].numeric_call(env)[slot]
            envn = dict(env)
            envn.update({k: float(v) for k, v in numeric.items()})
            want = zeval.evalf(r, envn)
            if numrun.close(got, want, 1e-7, 1e-9):
                return None
            return viol(topo, tag, 0, slot, got, want, env, numeric, more_out, symtype, declare, "is not the METANET successor of the state argument in the same position", bits)

        acc.query(prover, topo, f"casadi[{tag}/c0]", f"result {stn}_{el}+[{i}] == successor of argument {stn}_{el}[{i}]", s.t == r, dom, (), on_sat)
    # ---- (b) levels 1, 2 == level 0 up to the documented concatenation
    for c in (1, 2, 3, -1):
        if c not in levels:
            continue
        for slot, s in levels[c].slot.items():
            if slot not in c0.slot:
                acc.exec_violation(PID, topo, f"casadi[{tag}/c{c}]", "array", f"level {c} has an entry {slot} that level 0 lacks", extra={"numeric": numeric})
                continue

            def on_sat(model, slot=slot, c=c):
                env = netcheck.model_env(topo, model, rng, numeric)
                a, b = levels[c].numeric_call(env)[slot], levels[0].numeric_call(env)[slot]
                if numrun.close(a, b, 1e-7, 1e-9):
                    return None
                return viol(topo, tag, c, slot, a, b, env, numeric, more_out, symtype, declare, "differs from the level-0 function", bits)

            acc.query(prover, topo, f"casadi[{tag}/c{c}]", f"level {c} entry {slot} == level 0 entry", s.t == c0.slot[slot].t, D, (), on_sat)
        if set(levels[c].slot) != set(c0.slot):
            acc.exec_violation(PID, topo, f"casadi[{tag}/c{c}]", "array", f"level {c} entries differ from level 0 entries", extra={"numeric": numeric})
    # ---- a network whose attachments were replaced after a first step: arguments/results are those of the CURRENT elements only
    if bits == 0 and pmode == "all":
        bld = netcheck.history_builders()["decoy-attachments-replaced"]
        for c in (0, 2):
            ex["structural_facts"] += 1
            try:
                F, b2, P2, decl2 = runs.cas_function(topo, symtype, numeric, c, more_out, None, declare=declare, builder=bld)
                ins2, outs2 = layout.expected(topo, b2, c, list(decl2), more_out)
                got_i = [F.size1_in(i) * F.size2_in(i) for i in range(F.n_in())]
                got_o = [F.size1_out(i) * F.size2_out(i) for i in range(F.n_out())]
                if got_i != [len(z) for _, z in ins2] or got_o != [len(z) for _, z in outs2]:
                    acc.exec_violation(PID, topo, f"casadi[{tag}/c{c}/attachments-replaced]", "array",
                                       f"after the origins/destinations were replaced the function has argument sizes {got_i} / result sizes {got_o}; the current network has {[len(z) for _, z in ins2]} / {[len(z) for _, z in outs2]}",
                                       extra={"numeric": numeric})
            except Exception as e:  # noqa
                acc.exec_violation(PID, topo, f"casadi[{tag}/c{c}/attachments-replaced]", "array", f"raised {type(e).__name__}: {str(e)[:160]}", extra={"numeric": numeric})
    # ---- distinct elements that share a name: every level must still have one argument per independent variable
    if bits == 0 and pmode == "all":
        def samename(s_):
            return {"L": "seg", "O": "od", "D": "od"}.get(s_[0], s_) if s_ not in topo.nodes else s_
        for c in (0, 1, 2):
            ex["structural_facts"] += 1
            try:
                F, b2, P2, decl2 = runs.cas_function(topo, symtype, numeric, c, more_out, None, declare=declare, rename=samename)
                ins2, outs2 = layout.expected(topo, b2, c, list(decl2), more_out)
                got = [F.size1_in(i) * F.size2_in(i) for i in range(F.n_in())]
                if got != [len(z) for _, z in ins2] or F.has_free():
                    acc.exec_violation(PID, topo, f"casadi[{tag}/c{c}/same-names]", "array", f"with equally named elements the arguments have sizes {got}, the network's variables {[len(z) for _, z in ins2]}",
                                       extra={"numeric": numeric})
            except Exception as e:  # noqa
                acc.exec_violation(PID, topo, f"casadi[{tag}/c{c}/same-names]", "array", f"compile raised {type(e).__name__} when distinct elements share a name: {str(e)[:160]}", extra={"numeric": numeric})
    # ---- a network stepped a second time with user-supplied symbols given speed-first: arguments and results must still pair up
    if bits == 0 and pmode == "none":
        import casadi as cs
        try:
            P, symbolic = runs.cas_params(topo, symtype, numeric)
            b = T_.build(topo, P)
            eng = runs.casadi_engine(symtype)
            kw = T_.model_kwargs(topo, P)
            b.net.step(engine=eng, **runs.NOFLAGS, **kw)
            XX = getattr(cs, symtype)
            l0 = topo.links[0]
            ic = {b.links[l0.name]: {"v": XX.sym("v_user", l0.N, 1), "rho": XX.sym("rho_user", l0.N, 1)}}
            b.net.step(init_conditions=ic, engine=eng, **runs.NOFLAGS, **kw)
            for c in (0, 1):
                F = eng.to_function(b.net, compact=c, more_out=False, parameters={k: symbolic[k] for k in declare},
                                    **{k: x for k, x in kw.items() if k not in declare})
                ni, no = [F.name_in(i) for i in range(F.n_in())], [F.name_out(i) for i in range(F.n_out())]
                ex["structural_facts"] += 1
                for k in range(F.n_out()):
                    if k >= len(ni) or no[k] != ni[k] + "+" or F.size_out(k) != F.size_in(k):
                        acc.exec_violation(PID, topo, f"casadi[{tag}/c{c}/re-stepped]", "array",
                                           f"after a second step with speed-first initial conditions result {k} '{no[k]}' is not the successor of argument {k} '{ni[k] if k < len(ni) else None}'",
                                           extra={"numeric": numeric})
                        break
        except Exception as e:  # noqa
            acc.exec_violation(PID, topo, f"casadi[{tag}/re-stepped]", "array", f"second step / compile raised {type(e).__name__}: {str(e)[:200]}", extra={"numeric": numeric})
    return acc.done(prover)


def viol(topo, tag, c, slot, got, want, env, numeric, more_out, symtype, declare, why, bits=0):
    return {"key": f"layout:{topo.name}:{tag}:c{c}:{slot}", "group": f"layout:{topo.name}:c{c}",
            "what": f"{topo.describe()} | {tag} compact={c}: entry {slot} = {got!r} {why} ({want!r})",
            "replay": {"property": PID, "kind": "layout", "topo": topo.to_json(), "symtype": symtype, "more_out": more_out, "compact": c, "slot": list(slot),
                       "env": env, "numeric": numeric, "declare": declare, "bits": bits}}


def replay(rec):
    if rec["kind"] == "exec":
        print(rec["msg"])
        return 1
    topo = T_.Topo.from_json(rec["topo"])
    numeric, declare = rec["numeric"], rec["declare"]
    slot = tuple(rec["slot"])
    flags = runs.flags_of(rec.get("bits", 0))
    c = compiled.compile_terms(topo, rec["symtype"], numeric, rec["compact"], rec["more_out"], flags, declare)
    got = c.numeric_call(rec["env"])[slot]
    if rec["compact"] == 0:
        zmax0 = lambda t: z3.If(z3.RealVal(0) >= t, z3.RealVal(0), t)
        ref = ref_metanet.Ref(topo, clamp_init=lambda kind, t: zmax0(t) if flags[f"positive_init_{kind}"] else t)
        envn = dict(rec["env"])
        envn.update({k: float(v) for k, v in numeric.items()})
        want = zeval.evalf(netcheck.apply_numeric(ref.next[(slot[1], slot[2])][slot[3]], numeric), envn)
        if flags["positive_next_" + {"rho": "density", "v": "speed", "w": "queue"}[slot[2]]]:
            want = max(0.0, want)
    else:
        want = compiled.compile_terms(topo, rec["symtype"], numeric, 0, rec["more_out"], flags, declare).numeric_call(rec["env"])[slot]
    print(f"entry {slot}: function gives {got!r}, expected {want!r}")
    return 0 if numrun.close(got, want, 1e-7, 1e-9) else 1


def main():
    args = harness.Args(PID)
    if args.replay:
        sys.exit(replay(harness.load_replay(args.replay)))
    t0 = time.time()
    topos = families.curated()
    timeout = 20000
    cfgs = [("SX", False, "all"), ("MX", True, "subset"), ("SX", True, "none")]
    if args.thorough:
        cfgs = [(s, mo, pm) for s in ("SX", "MX") for mo in (False, True) for pm in ("all", "subset", "none")]
        topos = topos + families.E(3, 4)
        timeout = 60000
    items = []
    for k, t in enumerate(topos):
        use = cfgs if t.name.startswith("k") else [cfgs[k % len(cfgs)]]
        for j, (s, mo, pm) in enumerate(use):
            items.append((t.to_json(), s, mo, pm, args.seed + k, timeout, 0))
            if args.thorough or (j + k) % 3 == 0:
                # positivity options on: arguments are recovered from clamped expressions (a different code path of to_function)
                items.append((t.to_json(), s, mo, pm, args.seed + k, timeout, 0b111111 if (j + k) % 2 == 0 else 0b000011))
    long = families.long_link()
    for (s, mo, pm, bits) in [("SX", False, "all", 0b111111), ("MX", False, "all", 0b111111), ("SX", True, "none", 0b000011), ("SX", False, "subset", 0)]:
        items.append((long.to_json(), s, mo, pm, args.seed, timeout, bits))
    if args.only:
        items = [it for it in items if args.only in it[0]["name"]]
    results = harness.pmap(work, items, args.serial)
    viol_, inc, tot, levels, samples, st, extra = netcheck.summarize(results)
    cov = netcheck.base_coverage(
        tot, levels, samples, st, len(items),
        "program = (topology, SX|MX, more_out, declared-parameter mode all|subset(reversed order)|none) compiled at levels 0,1,2; queries: level-0 result == METANET "
        "successor of the same-position state argument (per component); level-1/2 entry == level-0 entry (per entry); plus structural facts read from the signature",
        {"bounds": {"family": "K (20 curated) x " + ("12" if args.thorough else "3") + " configurations (+ positivity-option variants) + one 12-segment link topology" + (" + E(3,4)" if args.thorough else ""),
                    "compactness_levels": "-1, 0, 1, 2, 3 (documented classes: <= 0, == 1, > 1)"},
         "structural_facts_checked": extra.get("structural_facts", 0),
         "functions_encoded": ["Engine.to_function, _filter_vars, _gather_inputs, _gather_outputs, _add_parameters_to_inputs, _add_flows_to_outputs (executed; IR translated)",
                               "Network.elements/states/actions/disturbances/next_states enumeration"]})
    assumptions = ["the layout is derived from the description and the network's own enumeration order (net.elements) by the documented concatenation rules",
                   "non-declared parameters take dyadic numeric values; mainstream links keep a, v_free, rho_crit symbolic", "exact real arithmetic"]
    harness.finish(args, "translation_validation", cov, assumptions, viol_, inc, t0)


if __name__ == "__main__":
    main()
