"""C08 -- name and membership lookups always reflect the current network.

Inductive one-step scheme: invariant I(net) = every cached lookup present equals its
recomputation from net.graph.  Pre-state: symbolic bits (fork executor) choose a small graph
over {A, B} with optional edges/attachments (C always fresh); a mask of the 11 cached lookups is
read first (hence cached and, by I, consistent); then ONE mutating call -- chosen from every
construction call of the API incl. bulk calls, paths, calls that implicitly create nodes,
replacement of an edge's link or a node's origin/destination -- is executed by the real code;
afterwards ALL public lookups must equal the recomputation from the graph.  Complemented by
bounded real histories from the empty network with reads interleaved (validates reachability of
the pre-states and the inductive argument)."""
from __future__ import annotations

import itertools
import random
import sys
import time

import z3

from vlib import dfork, harness, histcheck as H

PID = "C08"


def work(item):
    kind = item[0]
    H.set_naming("distinct")
    if kind == "hist":
        return work_hist(item)
    _, opi, mask = item[:3]
    H.set_naming(item[3] if len(item) > 3 else "distinct")  # "shared": node C is also called "A" (by-name lookups keep one of them)
    ops = H.operations()
    may_fail = False
    if opi >= len(ops):
        label, real = H.failing_calls()[opi - len(ops)]
        may_fail = True
    else:
        label, real, model_fn, _ = ops[opi]
    out = {"item": f"{label}/mask={mask:011b}/{H.NODE_NAMING}", "paths": 0, "violations": [], "inconclusive": [], "samples": []}

    def fn():
        U = H.Universe()
        bits = H.symbolic_bits()
        net, m = H.build_pre(U, bits)
        H.touch(net, mask)
        if may_fail:
            try:
                real(net, U)
            except Exception:  # noqa  (the call is expected to fail half-way; what matters is the state it leaves)
                pass
        else:
            real(net, U)
        return bits, H.lookup_mismatches(net)

    for pr in dfork.run_all(fn):
        out["paths"] += 1
        if pr.exc is not None:
            out["violations"].append(viol(label, mask, dfork.model_of(pr.pc), f"raised {type(pr.exc).__name__}: {pr.exc}"))
            continue
        bits, bad = pr.value
        if bad:
            out["violations"].append(viol(label, mask, {k: str(v) for k, v in bits.items()}, f"stale/wrong lookups {bad}"))
        elif len(out["samples"]) < 1 and out["paths"] == 5:
            out["samples"].append({"pre_state": bits, "cached_before": [n for k, n in enumerate(H.CACHED) if mask >> k & 1], "call": label, "lookups_compared": 14})
    return out


def viol(label, mask, bits, what):
    cached = [n for k, n in enumerate(H.CACHED) if mask >> k & 1]
    nm = "" if H.NODE_NAMING == "distinct" else " (node C is also called 'A')"
    return {"key": f"c08:{label}:{H.NODE_NAMING}:{sorted(k for k, v in bits.items() if v in (True, 'True'))}:{what[:60]}", "group": f"{label.split('(')[0]}:{what[:60]}",
            "what": f"pre-state {bits}{nm}, cached before the call: {cached}; after {label}: {what}",
            "replay": {"property": PID, "kind": "step", "bits": {k: (v in (True, 'True')) for k, v in bits.items()}, "mask": mask, "op": label, "naming": H.NODE_NAMING}}


HIST_OPS = ["add_node(A)", "add_link(A,L1,B)", "add_link(A,L2,B)", "add_link(B,L1,C)", "add_links([(C,L1,A)])", "add_origin(O1,A)", "add_origin(O2,A)",
            "add_origin(O1,C)", "add_destination(D1,B)", "add_destination(D2,B)", "add_destination(D1,C)", "add_path(A-L1-C,o=None,d=None)",
            "add_path(C-L2-B,o=O2,d=None)", "add_nodes([C,A])"]


def work_hist(item):
    _, first, length, seed = item
    ops = {o[0]: o for o in H.operations()}
    names = HIST_OPS
    out = {"item": f"hist:{first}", "paths": 0, "violations": [], "inconclusive": [], "samples": []}
    rng = random.Random(seed)
    for tail in itertools.product(names, repeat=length - 1):
        seq = (first,) + tail
        U = H.Universe()
        net = U.Network(name="h")
        out["paths"] += 1
        try:
            for k, nm in enumerate(seq):
                H.touch(net, rng.getrandbits(11) if k % 2 else 0x7FF)
                ops[nm][1](net, U)
                bad = H.lookup_mismatches(net)
                if bad:
                    out["violations"].append({"key": f"c08:hist:{seq[:k+1]}", "group": f"hist:{nm.split('(')[0]}:{bad}",
                                              "what": f"history {list(seq[:k+1])}: stale/wrong lookups {bad}",
                                              "replay": {"property": PID, "kind": "hist", "seq": list(seq[:k + 1])}})
                    break
        except Exception as e:  # noqa
            out["violations"].append({"key": f"c08:hist-exc:{seq}", "what": f"history {list(seq)} raised {e!r}", "replay": {"property": PID, "kind": "hist", "seq": list(seq)}})
    out["samples"].append({"history": list(seq), "reads": "all lookups after every call, cached masks alternate all/random"})
    return out


def replay(rec):
    H.set_naming(rec.get("naming", "distinct"))
    U = H.Universe()
    ops = {o[0]: o for o in H.operations()}
    ops.update({l: (l, f) for l, f in H.failing_calls()})
    if rec["kind"] == "step":
        net, m = H.build_pre(U, rec["bits"])
        H.touch(net, rec["mask"])
        try:
            ops[rec["op"]][1](net, U)
        except Exception as e:  # noqa
            print("the call raised", repr(e))
        bad = H.lookup_mismatches(net)
        print(f"pre-state {rec['bits']}; cached: {[n for k, n in enumerate(H.CACHED) if rec['mask'] >> k & 1]}; call {rec['op']}; lookups differing from the graph: {bad}")
        return 1 if bad else 0
    net = U.Network(name="h")
    bad = []
    for nm in rec["seq"]:
        H.touch(net, 0x7FF)
        ops[nm][1](net, U)
        bad = H.lookup_mismatches(net)
    print(f"history {rec['seq']}: lookups differing from the graph: {bad}")
    return 1 if bad else 0


def main():
    args = harness.Args(PID)
    if args.replay:
        sys.exit(replay(harness.load_replay(args.replay)))
    t0 = time.time()
    ops = H.operations()
    masks = [0x7FF, 0] + [1 << k for k in range(11)] + [0x7FF ^ 1]
    if args.thorough:
        masks += [(1 << a) | (1 << b) for a, b in itertools.combinations(range(11), 2)] + [0x7FF ^ (1 << k) for k in range(1, 11)]
    items = [("step", i, m) for i in range(len(ops) + len(H.failing_calls())) for m in masks]
    items += [("step", i, m, "shared") for i in range(len(ops) + len(H.failing_calls())) for m in ((0x7FF, 0) if not args.thorough else masks[:13])]
    hl = 4 if args.thorough else 3
    items += [("hist", f, hl, args.seed) for f in HIST_OPS]
    results = harness.pmap(work, items, args.serial, chunksize=4)
    viol_, inc, samples = [], [], []
    paths = hist = 0
    for r in results:
        if "error" in r:
            inc.append(f"{r['item']}: worker error {r['error']}")
            continue
        viol_ += r["violations"]
        inc += r["inconclusive"]
        if r["item"].startswith("hist"):
            hist += r["paths"]
        else:
            paths += r["paths"]
        samples += r["samples"][:1]
    cov = {
        "states": paths, "transitions": paths, "traces_validated_against_impl": hist,
        "evaluations": paths + hist, "distinct_nontrivial": paths + hist,
        "rule": "state = (pre-state bits decided by the fork executor, mask of cached lookups, mutating call): one real execution each, 14 lookups compared with the recomputation "
                "from the graph afterwards; traces = real histories from the empty network (length %d over %d calls) with reads after every call" % (hl, len(HIST_OPS)),
        "mutating_calls": len(ops), "failing_calls": len(H.failing_calls()), "masks": len(masks), "pre_states_per_call": 64, "history_length": hl,
        "functions_encoded": ["Network.add_node(s)/add_link(s)/add_origin/add_destination/add_path", "util.funcs.invalidate_cache", "all cached_property lookups of Network", "views wrappers"],
        "samples": samples[:8] or [{"note": "none"}],
        "exhaustive": not viol_ and not inc,
    }
    assumptions = ["universe: 3 nodes, 2 links, 2 origins, 2 destinations; pre-states over {A,B} with C fresh; second configuration (masks all/none quick): node C is also called 'A' and the network is an instance of a user subclass of Network",
                   "every symbolic variable is control-determining: solver-driven exhaustive exploration of the pre-state space; the comparison itself is concrete",
                   "inductive scheme: any reachable state satisfies the invariant, so one step from an arbitrary consistent cached state covers histories of any length (within the universe)"]
    harness.finish(args, "model_checking", cov, assumptions, viol_, inc, t0)


if __name__ == "__main__":
    main()
