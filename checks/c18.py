"""C18 -- neutral controls reproduce the uncontrolled model; limits never raise speeds.

Paired programs, both engines, all values symbolic:
 (a) LinkWithVsl vs plain Link in the same network: equal next states when no segment is limited
     or when every limit is inactive ((1+alpha) v_ctrl_j >= V(rho_j) -- what an infinite limit
     satisfies); for arbitrary limits  v+_vsl <= v+_plain  component-wise, equality on unlimited
     segments, densities and all other elements untouched;
 (b) metering rate 1: 'in' and 'out' ramp variants give the same network step;
 (c) limited simplified ramp with q_des >= min(d + w/T, C min(1, space)) == metered ramp with r = 1;
 (d) mainstream origin with v_ctrl >= v_1: the step equals the step with v_ctrl replaced by v_1.
Primitive-level twins of (a)-(d) run on the real primitives of both engines.  'Infinite' is not
a real number: the inactive-limit hypothesis is its sound generalisation; a float companion run
with inf accompanies each pair (plain execution)."""
from __future__ import annotations

import copy
import math
import random
import sys
import time

import numpy as np
import z3

from vlib import discharge, families, harness, netcheck, numrun, prims, ref_metanet, runs, symx, sx2smt, layout, topo as T_, zeval
from vlib.prims import A, ST, Variant
from vlib.symx import S, explore, uf_exp, uf_pow

PID = "C18"
R = z3.Real


def with_links(topo, f, name):
    t = copy.deepcopy(topo)
    t.links = [f(l) for l in topo.links]
    t.name = name
    return t


def with_origin_kind(topo, node, kind, name):
    t = copy.deepcopy(topo)
    o, _ = t.origins[node]
    t.origins[node] = (o, kind)
    t.name = name
    return t


def pair_numpy(tA, tB, style, D, flags=None, builder=None):
    """one exploration stepping both networks: list of (pc, outsA, outsB, exc)."""
    res = []

    def fn():
        PA, PB = runs.sym_params(tA), runs.sym_params(tB)
        XA, XB = runs.sym_inputs(tA, style), runs.sym_inputs(tB, style)
        _, nA = runs.step_numpy(tA, PA, XA, flags, builder=builder)
        _, nB = runs.step_numpy(tB, PB, XB, flags, builder=builder)
        return nA, nB

    for pr in explore(fn, domain=D):
        if pr.exc is not None:
            res.append((pr.pc, None, None, pr.exc))
            continue
        nA, nB = pr.value
        res.append((pr.pc, {k: symx.leaves(v) for k, v in nA.items()}, {k: symx.leaves(v) for k, v in nB.items()}, None))
    return res


def pair_casadi(tA, tB, symtype, flags=None, builder=None):
    numeric = netcheck.casadi_numeric_for(tA)
    eA = netcheck.casadi_encoding(tA, symtype, numeric, flags, builder=builder)
    eB = netcheck.casadi_encoding(tB, symtype, numeric, flags, builder=builder)
    exc = eA.exc or eB.exc
    return [([], eA.outs, eB.outs, exc)], numeric


def Veq_term(l, i):
    a, rc, vf = R(f"a_{l.name}"), R(f"rhocrit_{l.name}"), R(f"vfree_{l.name}")
    return vf * uf_exp((-1 / a) * uf_pow(R(f"rho_{l.name}[{i}]") / rc, a))


def net_pairs(topo):
    """list of (label, topoA, topoB, hypotheses, relation spec)"""
    out = []
    vls = [l for l in topo.links if l.is_vsl]
    if vls:
        plain = with_links(topo, lambda l: T_.LinkSpec(l.name, l.u, l.v, l.N, None), topo.name + "~plain")
        hyp = []
        for l in vls:
            for j, i in enumerate(sorted(l.vsl)):
                hyp.append((1 + R(f"alpha_{l.name}")) * R(f"vctrl_{l.name}[{j}]") >= Veq_term(l, i))
        out.append(("vsl-inactive == plain", topo, plain, hyp, "eq"))
        out.append(("vsl <= plain", topo, plain, [], "vsl_le"))
        nolim = with_links(topo, lambda l: T_.LinkSpec(l.name, l.u, l.v, l.N, () if l.is_vsl else None), topo.name + "~nolimit")
        if any(l.vsl for l in vls):
            out.append(("vsl-without-limited-segment == plain", nolim, plain, [], "eq"))
        # the same under positivity options and for ALL reals (negative states included): the clamps must act on both alike
        out.append(("vsl-without-limited-segment == plain [options on, all reals]", nolim, plain, [], "eq", 0b111111))
    for node, (o, k) in topo.origins.items():
        if k in ("ramp_in", "ramp_out"):
            other = with_origin_kind(topo, node, "ramp_out" if k == "ramp_in" else "ramp_in", topo.name + "~" + o + "swap")
            out.append((f"{o}: rate 1 => in == out", topo, other, [R(f"r_{o}") == 1], "eq"))
        if k == "simp_lim":
            (l,) = topo.out_links(node)
            met = with_origin_kind(topo, node, "ramp_out", topo.name + "~" + o + "metered")
            d, w, T, C = R(f"d_{o}"), R(f"w_{o}"), R("T"), R(f"C_{o}")
            space = (R(f"rhomax_{l.name}") - R(f"rho_{l.name}[0]")) / (R(f"rhomax_{l.name}") - R(f"rhocrit_{l.name}"))
            lim = ref_metanet.zmin(d + w / T, C * ref_metanet.zmin(z3.RealVal(1), space))
            out.append((f"{o}: unbounded desired flow == metered with rate 1", topo, met, [R(f"q_{o}") >= lim, R(f"r_{o}") == 1], "eq"))
        if k == "main":
            (l,) = topo.out_links(node)
            out.append((f"{o}: v_ctrl >= v_1 => limited by v_1 only", topo, topo, [R(f"vctrl_{o}") >= R(f"v_{l.name}[0]")],
                        ("subst", f"vctrl_{o}", f"v_{l.name}[0]")))
    return out


def work_net(item):
    tj, style, seed, timeout_ms = item[:4]
    hist = item[4] if len(item) > 4 else "fresh"
    builder = netcheck.history_builders()[hist]
    runs.set_default_history(hist)
    topo = T_.Topo.from_json(tj)
    rng = random.Random(seed)
    acc = netcheck.Acc(topo.name if hist == "fresh" else f"{topo.name}[{hist}]")
    acc.d["extra"]["inf_companion_runs"] = 0
    prover = discharge.Prover(timeout_ms=timeout_ms, seed=seed)
    for pair in net_pairs(topo):
        label, tA, tB, hyp, rel = pair[:5]
        bits = pair[5] if len(pair) > 5 else 0
        flags = runs.flags_of(bits)
        D = ref_metanet.admissible_domain(tA)
        if bits:
            pn = set(T_.param_names(tA))
            D = [c for c in D if set(discharge.free_vars(c)) <= pn]  # parameters only: states range over all reals
        encs = []
        try:
            for pc, oA, oB, exc in pair_numpy(tA, tB, style, D + hyp, flags, builder):
                encs.append((f"numpy[{style}]", pc, oA, oB, exc, None))
            for st in ("SX", "MX"):
                lst, numeric = pair_casadi(tA, tB, st, flags, builder)
                for pc, oA, oB, exc in lst:
                    encs.append((f"casadi[{st}]", pc, oA, oB, exc, numeric))
        except (symx.UnsupportedOp, symx.Inconclusive) as e:
            acc.inconclusive(f"{topo.name} {label}: {e}")
            continue
        for eng, pc, oA, oB, exc, numeric in encs:
            acc.d["encodings"] += 1
            if eng.startswith("numpy"):
                acc.d["paths"] += 1
            if exc is not None:
                acc.exec_violation(PID, tA, eng, style, f"pair '{label}': raised {type(exc).__name__}: {exc}")
                continue
            Dn = [netcheck.apply_numeric(c, numeric) for c in D]
            hn = [netcheck.apply_numeric(c, numeric) for c in hyp]
            for key in oA:
                for i, sa in enumerate(oA[key]):
                    sb = oB[key][i]
                    a, b = sa.t, sb.t
                    if isinstance(rel, tuple):  # substitution inside the same function
                        b = z3.substitute(a, (R(rel[1]), R(rel[2])))
                        goal = a == b
                    elif rel == "eq":
                        goal = a == b
                    else:  # vsl_le
                        l = next((x for x in tA.links if x.name == key[0]), None)
                        if key[1] == "v" and l is not None and l.is_vsl and i in l.vsl:
                            goal = a <= b
                        else:
                            goal = a == b

                    def on_sat(model, key=key, i=i, eng=eng, label=label, tA=tA, tB=tB, rel=rel, numeric=numeric, goal_is_le=(z3.is_le(goal))):
                        env = netcheck.model_env(tA, model, rng, numeric)
                        env.update({k: v for k, v in netcheck.model_env(tB, model, rng, numeric).items() if k not in env})
                        return replay_net(tA, tB, style, eng, env, key, i, rel, label, goal_is_le, numeric, flags)

                    acc.query(prover, tA, eng, f"{label}: {key[1]}_{key[0]}[{i}]", goal, Dn, list(pc), on_sat, extra=hn)
        # float companion with an actual infinity (plain execution)
        if label.startswith("vsl-inactive") or "v_ctrl >= v_1" in label:
            env = numrun.sample_env(tA, rng)
            for k in env:
                if k.startswith("vctrl_"):
                    env[k] = float("inf")
            ra, ea = numrun.numpy_float(tA, env, style)
            envb = dict(env)
            if "v_ctrl >= v_1" in label:
                for node, (o, kk) in tA.origins.items():
                    if kk == "main":
                        envb[f"vctrl_{o}"] = env[f"v_{tA.out_links(node)[0].name}[0]"]
            rb, eb = numrun.numpy_float(tB, envb, style)
            acc.d["extra"]["inf_companion_runs"] += 1
            # the same with whole numbers held in integer-dtype state arrays (plain execution: dtype is outside the symbolic model)
            envi = {k: (float(round(v)) if (k.startswith("rho_") or k.startswith("v_")) and v == v and abs(v) != float("inf") else v) for k, v in env.items()}
            envbi = {k: (float(round(v)) if (k.startswith("rho_") or k.startswith("v_")) and v == v and abs(v) != float("inf") else v) for k, v in envb.items()}
            if "v_ctrl >= v_1" in label:
                for node, (o, kk) in tA.origins.items():
                    if kk == "main":
                        envbi[f"vctrl_{o}"] = envi[f"v_{tA.out_links(node)[0].name}[0]"]
            rai, eai = numrun.numpy_float(tA, envi, style, int_states=True)
            rbf, ebf = numrun.numpy_float(tB, envbi, style)
            if eai is None and ebf is None:
                for key in rai:
                    if any(not numrun.close(x, y, 1e-9, 1e-9) for x, y in zip(rai[key], rbf[key])):
                        acc.d["violations"].append({"key": f"int:{tA.name}:{label}", "group": f"int:{label}",
                                                    "what": f"{tA.describe()} | '{label}' with infinite limit and integer-dtype state arrays: {key} = {rai[key]} vs uncontrolled {rbf[key]}",
                                                    "replay": {"property": PID, "kind": "inf", "topoA": tA.to_json(), "topoB": tB.to_json(), "style": style, "env": envi, "envb": envbi}})
                        break
            if ea is not None or eb is not None:
                acc.exec_violation(PID, tA, "numpy[inf]", style, f"pair '{label}' with infinite limits raised {ea or eb!r}", extra={"env": env})
            else:
                for key in ra:
                    for i, x in enumerate(ra[key]):
                        if not numrun.close(x, rb[key][i], 1e-9, 1e-9):
                            acc.d["violations"].append({"key": f"inf:{tA.name}:{label}", "what": f"{tA.describe()} | '{label}' with infinite limit: {key}[{i}] = {x!r} vs {rb[key][i]!r}",
                                                        "replay": {"property": PID, "kind": "inf", "topoA": tA.to_json(), "topoB": tB.to_json(), "style": style, "env": env, "envb": envb}})
                            break
    return acc.done(prover)


def real_next_flags(topo, encname, style, env, numeric, flags):
    if encname.startswith("numpy"):
        return numrun.numpy_float(topo, env, style, flags)
    try:
        F, built, P, declared = runs.cas_function(topo, "SX" if "SX" in encname else "MX", numeric, 0, False, flags)
        res = dict(numrun.casadi_float(F, numrun.casadi_args(F, topo, declared, env)))
    except Exception as e:  # noqa
        return None, e
    return {(nm[:-1].partition("_")[2], nm[:-1].partition("_")[0]): vals for nm, vals in res.items()}, None


def replay_net(tA, tB, style, eng, env, key, i, rel, label, is_le, numeric, flags=None, verbose=False):
    envb = dict(env)
    if isinstance(rel, (tuple, list)):
        envb[rel[1]] = env[rel[2]]
    ra, ea = real_next_flags(tA, eng, style, env, numeric, flags)
    rb, eb = real_next_flags(tB, eng, style, envb, numeric, flags)
    if ea is not None or eb is not None:
        return None
    x, y = ra[tuple(key)][i], rb[tuple(key)][i]
    bad = (x > y + 1e-7 * (1 + abs(y))) if is_le else not numrun.close(x, y, 1e-7, 1e-9)
    if verbose:
        print(f"'{label}' {eng}: {key}[{i}]: controlled = {x!r}, neutral/uncontrolled = {y!r}; violated: {bad}")
    if not bad:
        return None
    return {"key": f"net:{tA.name}:{label}:{eng}:{key[1]}_{key[0]}[{i}]", "group": f"net:{tA.name}:{label}",
            "what": f"{tA.describe()} | '{label}' ({eng}): next {key[1]}_{key[0]}[{i}] = {x!r} vs {y!r}",
            "replay": {"property": PID, "kind": "net", "topoA": tA.to_json(), "topoB": tB.to_json(), "style": style, "engine": eng, "env": env,
                       "target": [list(key), i], "rel": rel, "label": label, "is_le": is_le, "numeric": numeric, "flags": flags}}


# ------------------------------------------------------------------------------- primitive level
def prim_pairs():
    P = []
    for N in (1, 2, 3):
        plain = Variant("links.Veq", f"N{N}", [A("rho", N), A("v_free"), A("rho_crit"), A("a")])
        for vsl in prims._vsl_subsets(N, True):
            ctl = Variant("links.controlled_Veq", f"N{N}vsl{''.join(map(str, vsl)) or '-'}",
                          [A("rho", N), A("v_ctrl", len(vsl) or -1), ST("vsl", list(vsl)), A("alpha"), A("v_free"), A("rho_crit"), A("a")])
            P.append(("veq", ctl, plain, vsl))
    for n in (0, 1):
        tag = "0d" if n == 0 else "len1"
        mk = lambda ty: Variant("origins.get_ramp_flow", f"{ty}/{tag}", [A("d", n), A("w", n), A("C"), A("r", n), A("rho_max"), A("rho_first"), A("rho_crit"), A("T"), ST("type", ty)])
        P.append(("ramp", mk("in"), mk("out"), n))
        simp = Variant("origins.get_simplifiedramp_flow", f"limited/{tag}", [A("qdes", n), A("d", n), A("w", n), A("C"), A("rho_max"), A("rho_first"), A("rho_crit"), A("T"), ST("type", "limited")])
        P.append(("simp", simp, mk("out"), n))
        main = Variant("origins.get_mainstream_flow", tag, [A("d", n), A("w", n), A("v_ctrl", n), A("v_first"), A("rho_crit"), A("a"), A("v_free"), A("lanes"), A("T")])
        P.append(("main", main, main, n))
    return P


def work_prim(item):
    idx, seed, timeout_ms = item
    kind, vA, vB, info = prim_pairs()[idx]
    acc = netcheck.Acc(f"{vA.name}~{vB.name}")
    prover = discharge.Prover(timeout_ms=timeout_ms, seed=seed)
    D = prims.default_domain(vA) + prims.default_domain(vB)
    sfx = "[0]" if info == 1 else ""
    hyp = []
    if kind == "ramp":
        hyp = [R("r" + sfx) == 1]
    elif kind == "simp":
        space = (R("rho_max") - R("rho_first")) / (R("rho_max") - R("rho_crit"))
        hyp = [R("r" + sfx) == 1, R("qdes" + sfx) >= ref_metanet.zmin(R("d" + sfx) + R("w" + sfx) / R("T"), R("C") * ref_metanet.zmin(z3.RealVal(1), space))]
    elif kind == "main":
        hyp = [R("v_ctrl" + sfx) >= R("v_first")]
    for eng in ("numpy", "SX", "MX"):
        try:
            if eng == "numpy":
                resA = [(pc, vals, exc) for pc, vals, exc, _, _ in prims.run_numpy(vA, D + hyp)]
                resB = [(pc, vals, exc) for pc, vals, exc, _, _ in prims.run_numpy(vB, D + hyp)]
            else:
                resA = [([], prims.run_casadi(vA, eng)[0], None)]
                resB = [([], prims.run_casadi(vB, eng)[0], None)]
        except (symx.UnsupportedOp, symx.Inconclusive) as e:
            acc.inconclusive(f"{vA.name}: {e}")
            continue
        for pcA, valsA, excA in resA:
            for pcB, valsB, excB in resB:
                acc.d["encodings"] += 1
                if excA is not None or excB is not None:
                    acc.d["violations"].append({"key": f"primexec:{vA.name}:{eng}", "what": f"{vA.name}/{vB.name} {eng} raised {excA or excB!r}",
                                                "replay": {"property": PID, "kind": "primexec", "what": repr(excA or excB)}})
                    continue
                pc = list(pcA) + list(pcB)
                for i, (sa, sb) in enumerate(zip(valsA, valsB)):
                    goals = []
                    if kind == "veq":
                        vsl = info
                        if i in vsl:
                            j = sorted(vsl).index(i)
                            goals.append(("limited segment: controlled <= plain", sa.t <= sb.t, []))
                            goals.append(("inactive limit: controlled == plain", sa.t == sb.t, [(1 + R("alpha")) * R(f"v_ctrl[{j}]") >= sb.t]))
                        else:
                            goals.append(("unlimited segment untouched", sa.t == sb.t, []))
                    elif kind == "main":
                        goals.append(("v_ctrl >= v_1: flow independent of v_ctrl", sa.t == z3.substitute(sa.t, (R("v_ctrl" + sfx), R("v_first"))), hyp))
                    else:
                        goals.append(("equal under neutral control", sa.t == sb.t, hyp))
                    for label, goal, h in goals:
                        acc.query(prover, None, f"{vA.name} vs {vB.name} [{eng}]", f"out[{i}]: {label}", goal, D, pc, lambda m: None, extra=h)
    for s in acc.d["samples"]:
        s["primitive_pair"] = f"{vA.name} ~ {vB.name}"
    return acc.done(prover)


def replay(rec):
    if rec["kind"] == "net":
        tA, tB = T_.Topo.from_json(rec["topoA"]), T_.Topo.from_json(rec["topoB"])
        key, i = rec["target"]
        v = replay_net(tA, tB, rec["style"], rec["engine"], rec["env"], key, i, rec["rel"], rec["label"], rec["is_le"], rec.get("numeric"), rec.get("flags"), True)
        return 1 if v else 0
    if rec["kind"] == "inf":
        tA, tB = T_.Topo.from_json(rec["topoA"]), T_.Topo.from_json(rec["topoB"])
        print(numrun.numpy_float(tA, rec["env"], rec["style"]))
        print(numrun.numpy_float(tB, rec["envb"], rec["style"]))
        return 1
    if rec["kind"] == "exec":
        return netcheck.replay_exec(rec)
    print(rec)
    return 1


def _work(item):
    return work_prim(item[1:]) if item[0] == "prim" else work_net(item[1:])


def controlled(t):
    return any(l.is_vsl for l in t.links) or any(k in ("ramp_in", "ramp_out", "simp_lim", "main") for _, k in t.origins.values())


def main():
    args = harness.Args(PID)
    if args.replay:
        sys.exit(replay(harness.load_replay(args.replay)))
    t0 = time.time()
    timeout = 60000 if args.thorough else 20000
    items = [("prim", i, args.seed, timeout) for i in range(len(prim_pairs()))]
    topos = [t for t in families.curated() if controlled(t)]
    if args.thorough:
        topos += [t for t in families.E(3, 4)[::2] + families.random_topos(args.seed, 20) if controlled(t)]
    for k, t in enumerate(topos):
        items.append(("net", t.to_json(), ("array", "scalar")[k % 2], args.seed + k, timeout))
        if t.name.startswith("k") and (args.thorough or k % 2 == 0):
            # the same relations when both twins were stepped once with decoy links that were then replaced
            items.append(("net", t.to_json(), ("array", "scalar")[(k + 1) % 2], args.seed + k, timeout, "decoy-links-replaced"))
    if args.only:
        items = [it for it in items if args.only in str(it[1])]
    results = harness.pmap(_work, items, args.serial)
    viol, inc, tot, levels, samples, st, extra = netcheck.summarize(results)
    cov = netcheck.base_coverage(
        tot, levels, samples, st, len(items),
        "program = pair (controlled element, neutral/uncontrolled twin) at primitive level or inside a topology; one query per (pair, engine "
        "[NumPy path | SX | MX], next-state component or result entry, relation [== under neutral-control hypothesis | <= for limited segments])",
        {"bounds": {"primitive_pairs": len(prim_pairs()), "network_family": "controlled members of K" + (" + every 2nd of E(3,4) + R(seed,20)" if args.thorough else ""),
                    "values": "all admissible reals"},
         "inf_companion_runs": extra.get("inf_companion_runs", 0),
         "functions_encoded": ["LinkWithVsl._get_equilibrium_speed / controlled_Veq vs Link / Veq", "MeteredOnRamp.get_flow (in|out)",
                               "SimplifiedMeteredOnRamp.get_flow (limited)", "MainstreamOrigin.get_flow", "Network.step around them", "both engines"]})
    assumptions = ["'infinite limit' generalised to 'inactive limit' ((1+alpha) v_ctrl >= V(rho)), which every infinite limit satisfies; float companion runs use inf",
                   "monotonicity claim uses T/tau > 0 from the admissible domain; positivity options off", "exact real arithmetic"]
    harness.finish(args, "model_checking", cov, assumptions, viol, inc, t0)


if __name__ == "__main__":
    main()
