"""C02 -- vehicles are conserved by every step, network-wide and at every node.

No oracle: the balance is computed from the function's own inputs and outputs.
 (a) sum_seg (rho+ - rho) lam L + sum_o (w+ - w) == T (sum_queued d + sum_ideal q_o - sum_dest q_last)
 (b) per node: sum_{m in out} q_in(m) == sum_{mu in in} q_last(mu) + q_o
     with q_in(m) := (rho+_{m,1} - rho_{m,1}) lam_m L_m / T + q_{m,1}   (recovered from the update)
          q_o     := d - (w+ - w)/T for queued origins, rho v lam of the first segment for ideal ones
z3 must answer unsat for the negation, for all reals (no positivity clamps, no sign assumptions)."""
from __future__ import annotations

import random
import sys
import time

import z3

from vlib import discharge, families, harness, netcheck, numrun, ref_metanet, runs, symx, topo as T_, zeval
from vlib.symx import S

PID = "C02"
R = z3.Real


def balances(topo, nxt, getv):
    """build the balance equations.  nxt[(el, st)][i] and getv(name) give terms or floats."""
    T = getv("T")

    def q(l, i):
        return getv(f"rho_{l.name}[{i}]") * getv(f"v_{l.name}[{i}]") * getv(f"lam_{l.name}")

    def q_in(l):
        return (nxt[(l.name, "rho")][0] - getv(f"rho_{l.name}[0]")) * getv(f"lam_{l.name}") * getv(f"L_{l.name}") / T + q(l, 0)

    def q_o(node):
        o, kind = topo.origins[node]
        if kind == "ideal":
            (l,) = topo.out_links(node)
            return q(l, 0)
        return getv(f"d_{o}") - (nxt[(o, "w")][0] - getv(f"w_{o}")) / T

    eqs = []
    # (a) network-wide
    lhs = 0
    for l in topo.links:
        for i in range(l.N):
            lhs = lhs + (nxt[(l.name, "rho")][i] - getv(f"rho_{l.name}[{i}]")) * getv(f"lam_{l.name}") * getv(f"L_{l.name}")
    rhs = 0
    for node, (o, kind) in topo.origins.items():
        if kind in T_.QUEUED:
            lhs = lhs + (nxt[(o, "w")][0] - getv(f"w_{o}"))
            rhs = rhs + getv(f"d_{o}")
        else:
            rhs = rhs + q_o(node)
    for node in topo.dests:
        for mu in topo.in_links(node):
            rhs = rhs - q(mu, mu.N - 1)
    eqs.append(("network", lhs, T * rhs))
    # (b) per node
    for node in topo.nodes:
        outs = topo.out_links(node)
        if not outs:
            continue
        l_ = 0
        for m in outs:
            l_ = l_ + q_in(m)
        r_ = 0
        for mu in topo.in_links(node):
            r_ = r_ + q(mu, mu.N - 1)
        if node in topo.origins:
            r_ = r_ + q_o(node)
        eqs.append((f"node {node}", l_, r_))
    return eqs


def work(item):
    tj, style, seed, timeout_ms, engines, direct = item[:6]
    hist = item[6] if len(item) > 6 else "fresh"
    flags = None
    if hist == "speed-clamp-only":
        # the next-speed clamp does not touch densities or queues: the vehicle balance must hold exactly as without any option
        hist, flags = "fresh", runs.flags_of(0b001000)
    builder = netcheck.history_builders()[hist]
    runs.set_default_history(hist)
    topo = T_.Topo.from_json(tj)
    rng = random.Random(seed)
    acc = netcheck.Acc(topo.name)
    D = ref_metanet.admissible_domain(topo)
    prover = discharge.Prover(timeout_ms=timeout_ms, seed=seed)
    encs = []
    try:
        if "numpy" in engines:
            encs += netcheck.numpy_encodings(topo, style, flags, D, builder=builder)
        numeric = netcheck.casadi_numeric_for(topo)
        for st in ("SX", "MX"):
            if st in engines:
                e = netcheck.casadi_encoding(topo, st, numeric, flags, builder=builder)
                e.extra["numeric"] = numeric
                encs.append(e)
    except (symx.UnsupportedOp, symx.Inconclusive) as e:
        acc.inconclusive(f"{topo.name}: {type(e).__name__}: {e}")
        return acc.done()
    for enc in encs:
        acc.d["encodings"] += 1
        if enc.exc is not None:
            acc.exec_violation(PID, topo, enc.name, style, f"raised {type(enc.exc).__name__}: {enc.exc}")
            continue
        if any(v is None for v in enc.outs.values()):
            acc.exec_violation(PID, topo, enc.name, style, "an element with states has no next state after the step")
            continue
        if enc.name.startswith("numpy"):
            acc.d["paths"] += 1
        numeric = enc.extra.get("numeric")
        bad = netcheck.validate_encoding(topo, enc, rng, style, flags, numeric)
        if bad:
            acc.inconclusive(f"{topo.name}: encoder validation failed: {bad[0]}")
            continue
        acc.d["validated"] += 1
        nxt = {k: [s.t for s in v] for k, v in enc.outs.items()}

        def getv(name):
            if numeric and name in numeric:
                return symx.zconst(symx.frac_of(numeric[name]))
            return R(name)

        ok_nodes = True
        for label, lhs, rhs in balances(topo, nxt, getv):
            if label == "network" and not direct:
                continue

            def on_sat(model, label=label, enc=enc, numeric=numeric):
                env = netcheck.model_env(topo, model, rng, numeric)
                return replay_balance(topo, enc.name, style, env, label, numeric, flags=flags)

            if label == "network":
                # direct attempt (thorough tier): a cross-check of the compositional proof; unknown is tolerated
                v = prover.prove(lhs == rhs, D, enc.pc)
                acc.d["extra"]["direct_network_" + v.status] = acc.d["extra"].get("direct_network_" + v.status, 0) + 1
                if v.status == "sat":
                    viol = on_sat(v.model)
                    if viol:
                        acc.d["violations"].append(viol)
                continue
            ok_nodes &= acc.query(prover, topo, enc.name, f"balance[{label}]", lhs == rhs, D, enc.pc, on_sat)
        # network-wide balance, compositionally: per-link telescoping lemmas + node balances + linear combination
        ok_links = True
        for l in topo.links:
            lam, L, T = getv(f"lam_{l.name}"), getv(f"L_{l.name}"), getv("T")
            x = R(f"anyrho1_{l.name}")  # the lemma holds for ANY value of the first segment's next density
            qf = lambda i: getv(f"rho_{l.name}[{i}]") * getv(f"v_{l.name}[{i}]") * lam
            first = (x - getv(f"rho_{l.name}[0]")) * lam * L
            S_m = first
            for i in range(1, l.N):
                S_m = S_m + (nxt[(l.name, "rho")][i] - getv(f"rho_{l.name}[{i}]")) * lam * L
            lemma = S_m == T * (first / T + qf(0) - qf(l.N - 1))

            def on_sat_l(model, enc=enc, numeric=numeric):
                env = netcheck.model_env(topo, model, rng, numeric)
                return replay_balance(topo, enc.name, style, env, "network", numeric, flags=flags)

            ok_links &= acc.query(prover, topo, enc.name, f"link-telescoping[{l.name}]", lemma, D, enc.pc, on_sat_l)
        # final step over atoms (valid for every valid topology; checked by the solver each time)
        A = lambda n: R("atom!" + n)
        hyps = [A("T") != 0]
        for l in topo.links:
            hyps.append(A(f"S_{l.name}") == A("T") * (A(f"Qin_{l.name}") - A(f"Qlast_{l.name}")))
        for node in topo.nodes:
            outs = topo.out_links(node)
            if not outs:
                continue
            rhs_ = sum((A(f"Qlast_{mu.name}") for mu in topo.in_links(node)), z3.RealVal(0))
            if node in topo.origins:
                rhs_ = rhs_ + A(f"Qo_{node}")
            hyps.append(sum((A(f"Qin_{m.name}") for m in outs), z3.RealVal(0)) == rhs_)
        g_l = sum((A(f"S_{l.name}") for l in topo.links), z3.RealVal(0))
        g_r = z3.RealVal(0)
        for node, (o, kind) in topo.origins.items():
            if kind in T_.QUEUED:
                hyps.append(A(f"Qo_{node}") == A(f"d_{o}") - A(f"W_{o}") / A("T"))
                g_l = g_l + A(f"W_{o}")
                g_r = g_r + A(f"d_{o}")
            else:
                g_r = g_r + A(f"Qo_{node}")
        for node in topo.dests:
            for mu in topo.in_links(node):
                g_r = g_r - A(f"Qlast_{mu.name}")
        acc.query(prover, topo, enc.name, "network balance from lemmas (linear combination over atoms)",
                  z3.Implies(z3.And(*hyps), g_l == A("T") * g_r), (), (), None)
        if not (ok_nodes and ok_links):
            pass  # the failing lemma has already been reported / replayed
    return acc.done(prover)


def real_next(topo, encname, style, env, numeric):
    if encname.startswith("numpy"):
        return numrun.numpy_float(topo, env, style)
    try:
        F, built, P, declared = runs.cas_function(topo, "SX" if "SX" in encname else "MX", numeric)
        res = dict(numrun.casadi_float(F, numrun.casadi_args(F, topo, declared, env)))
    except Exception as e:  # noqa
        return None, e
    out = {}
    for nm, vals in res.items():
        st, _, el = nm[:-1].partition("_")
        out[(el, st)] = vals
    return out, None


def replay_balance(topo, encname, style, env, label, numeric, verbose=False, flags=None):
    if flags:
        from checks import c18
        nxt, exc = c18.real_next_flags(topo, encname, style, env, numeric, flags)
    else:
        nxt, exc = real_next(topo, encname, style, env, numeric)
    if exc is not None:
        return None
    for lab, lhs, rhs in balances(topo, nxt, lambda n: env[n]):
        if lab != label:
            continue
        scale = 1.0 + abs(lhs) + abs(rhs)
        if verbose:
            print(f"balance[{lab}]: lhs={lhs!r} rhs={rhs!r}")
        if abs(lhs - rhs) > 1e-7 * scale:
            return {"key": f"balance:{encname.split('#')[0]}:{topo.name}:{label}", "group": f"balance:{topo.name}",
                    "what": f"{topo.describe()} | {encname}: vehicle balance [{label}] violated: {lhs!r} != {rhs!r}",
                    "replay": {"property": PID, "kind": "balance", "topo": topo.to_json(), "style": style, "encoding": encname,
                               "label": label, "env": env, "numeric": numeric, "lhs": lhs, "rhs": rhs, "flags": flags}}
    return None


def replay(rec):
    if rec["kind"] == "exec":
        return netcheck.replay_exec(rec)
    topo = T_.Topo.from_json(rec["topo"])
    v = replay_balance(topo, rec["encoding"], rec["style"], rec["env"], rec["label"], rec.get("numeric"), verbose=True, flags=rec.get("flags"))
    print("violated" if v else "balance holds")
    return 1 if v else 0


def main():
    args = harness.Args(PID)
    if args.replay:
        sys.exit(replay(harness.load_replay(args.replay)))
    t0 = time.time()
    topos = families.curated()
    timeout = 20000
    if args.thorough:
        topos = topos + families.E(4, 5) + families.E(3, 4, maxN=5)[::2] + families.random_topos(args.seed, 40)
        timeout = 60000
    items = []
    for k, t in enumerate(topos):
        if args.only and args.only not in t.name:
            continue
        items.append((t.to_json(), ("array", "scalar")[k % 2], args.seed + k, timeout, ("numpy", "SX", "MX"),
                      args.thorough and t.name.startswith("k"), "fresh"))
        if t.name.startswith("k"):
            # the same balance on networks that were read / stepped / had elements replaced before (every step conserves vehicles)
            hs = ["reads-interleaved", "decoy-links-replaced", "decoy-attachments-replaced", "speed-clamp-only"]
            for h in (hs if args.thorough else [hs[k % 4], "speed-clamp-only"][: 1 + (k % 2)]):
                items.append((t.to_json(), ("array", "scalar")[(k + 1) % 2], args.seed + k, timeout, ("numpy", "SX"), False, h))
            if args.thorough or k % 3 == 1:
                items.append((t.to_json(), ("array", "scalar")[k % 2], args.seed + k, timeout, ("numpy",), False, "same-names"))
            if any(len(t.out_links(n)) > 1 for n in t.nodes):
                # time-varying splitting rates: the turn rates are re-assigned after a first step
                items.append((t.to_json(), ("array", "scalar")[k % 2], args.seed + k, timeout, ("numpy", "SX") if args.thorough else (("numpy",), ("SX",))[k % 2], False, "turnrates-reassigned-after-step"))
    results = harness.pmap(work, items, args.serial)
    viol, inc, tot, levels, samples, st, _ = netcheck.summarize(results)
    cov = netcheck.base_coverage(
        tot, levels, samples, st, len(items),
        "per (topology, encoding [NumPy-symbolic path | SX IR | MX IR]): one query per node with leaving links (node balance), one per link "
        "(telescoping lemma, generalised over the first segment's next density), one linear-combination query deriving the network-wide balance "
        "from those lemmas; thorough also attempts the network-wide equation directly on family K as a cross-check; "
        "non-trivial = not closed syntactically; states = queries, transitions = symbolic runs/encodings, each validated against float execution",
        {"bounds": {"family": "K (20 curated)" + (" + E(4,5) [725 structures] + every 2nd of E(3,4) with up to 5 segments + R(seed,40)" if args.thorough else ""),
                    "segments_per_link": "<= 3 (quick), <= 5 (thorough)", "values": "all reals (no sign assumptions needed at L1; domain only as fallback)"},
         "functions_encoded": ["Network.step and everything it calls (see C01)", "Engine.to_function(compact=0) IR (SX, MX)"]})
    assumptions = ["exact real arithmetic; non-zero denominators (L1)", "no positivity clamps (all six options off), as the property states; one extra variant per topology switches on only the next-speed clamp, which does not touch the vehicle count",
                   "ideal-origin inflow is the first-segment flow rho*v*lam of its link (definition of the ideal origin)"]
    harness.finish(args, "model_checking", cov, assumptions, viol, inc, t0)


if __name__ == "__main__":
    main()
