"""C16 -- symbolic model parameters behave like the numbers substituted for them.

For a subset S of the parameter kinds {rho_crit, v_free, a, C, tau, eta, kappa, delta, T}:
compile the same topology twice with the real CasADi engine -- (A) the parameters in S are
symbols declared through `parameters`, everything else numeric; (B) everything numeric -- and
translate both IRs.  With the numbers substituted for the symbols of A, z3 must prove every
result entry equal to B's, for all state/control/disturbance values.  Structural: the declared
parameters are the trailing arguments in declared order (level 0) or one stacked vector `p`
(levels 1, 2), bound by position."""
from __future__ import annotations

import itertools
import random
import sys
import time

import z3

from vlib import compiled, discharge, families, harness, netcheck, numrun, ref_metanet, runs, symx, topo as T_, zeval

PID = "C16"
KINDS = ("rhocrit", "vfree", "a", "C", "tau", "eta", "kappa", "delta", "T")


def names_of(topo, kinds):
    out = []
    for p in T_.param_names(topo):
        base = p.split("_")[0]
        if base in kinds:
            out.append(p)
    return out


def compile_grouped(topo, symtype, numeric, compact, declare):
    """the declared parameters of one kind are handed over as ONE vector (a concatenation of the per-element symbols)"""
    import casadi as cs
    from vlib import layout, sx2smt

    P, symbolic = runs.cas_params(topo, symtype, numeric)
    built = T_.build(topo, P)
    eng = runs.casadi_engine(symtype)
    kw = T_.model_kwargs(topo, P)
    built.net.step(engine=eng, **runs.NOFLAGS, **kw)
    groups = {}
    for n in declare:
        groups.setdefault(n.split("_")[0], []).append(n)
    params = {g: (cs.vertcat(*[symbolic[n] for n in ns]) if len(ns) > 1 else symbolic[ns[0]]) for g, ns in groups.items()}
    if "T" in groups:  # the sampling time keeps its documented key
        params = {("T" if g == "T" else "grp_" + g): v for g, v in params.items()}
    else:
        params = {"grp_" + g: v for g, v in params.items()}
    others = {k: v for k, v in kw.items() if k not in symbolic}
    F = eng.to_function(built.net, compact=compact, more_out=False, parameters=params, **others)
    decl = [((("T" if g == "T" else "grp_" + g)), ns) for g, ns in groups.items()]
    ins, outs = layout.expected(topo, built, compact, decl, False)
    got_in = [F.size1_in(i) * F.size2_in(i) for i in range(F.n_in())]
    if got_in != [len(z) for _, z in ins]:
        raise compiled.LayoutMismatch(f"arguments {[(F.name_in(i), got_in[i]) for i in range(F.n_in())]}; documented layout {[(n, len(z)) for n, z in ins]}")
    named, info = sx2smt.translate(F, layout.binder(ins))
    return compiled.Compiled(F, built, symbolic, ins, outs, named, info, numeric)


PUBLIC_KEY = {"rhocrit": "rho_crit", "vfree": "v_free", "a": "a", "C": "C"}


def public_declare(topo, kinds, seed):
    """at most one parameter per kind (keys must be unique): the element is picked by the seed"""
    out = []
    for k in kinds:
        ns = names_of(topo, (k,))
        if ns:
            out.append(ns[seed % len(ns)])
    return out


def compile_public(topo, symtype, numeric, compact, declare):
    """the declared parameters are keyed by the library's own parameter names ('rho_crit', 'v_free', 'a', 'C', 'tau', ...), as in
    the upstream tests; each symbol still belongs to ONE element only (e.g. the critical density of one link); flows are
    requested as well (more_out=True)"""
    from vlib import layout, sx2smt

    P, symbolic = runs.cas_params(topo, symtype, numeric)
    built = T_.build(topo, P)
    eng = runs.casadi_engine(symtype)
    kw = T_.model_kwargs(topo, P)
    built.net.step(engine=eng, **runs.NOFLAGS, **kw)
    keyof = lambda n: PUBLIC_KEY.get(n.split("_")[0], n.split("_")[0])
    params = {keyof(n): symbolic[n] for n in declare}
    assert len(params) == len(declare)
    others = {k: v for k, v in kw.items() if k not in params and k not in symbolic}
    F = eng.to_function(built.net, compact=compact, more_out=True, parameters=params, **others)
    decl = [(keyof(n), [n]) for n in declare]
    ins, outs = layout.expected(topo, built, compact, decl, True)
    got_in = [F.size1_in(i) * F.size2_in(i) for i in range(F.n_in())]
    if got_in != [len(z) for _, z in ins]:
        raise compiled.LayoutMismatch(f"arguments {[(F.name_in(i), got_in[i]) for i in range(F.n_in())]}; documented layout {[(n, len(z)) for n, z in ins]}")
    named, info = sx2smt.translate(F, layout.binder(ins))
    return compiled.Compiled(F, built, symbolic, ins, outs, named, info, numeric)


def work(item):
    tj, symtype, compact, kinds, seed, timeout_ms, reverse = item[:7]
    grouped = len(item) > 7 and item[7]
    topo = T_.Topo.from_json(tj)
    rng = random.Random(seed)
    tag = f"{symtype}/c{compact}/{'+'.join(kinds) or 'none'}"
    acc = netcheck.Acc(f"{topo.name}:{tag}")
    prover = discharge.Prover(timeout_ms=timeout_ms, seed=seed)
    vals = numrun.exact_params(topo, seed)
    mainstream = has_main(topo)
    declare = names_of(topo, kinds)
    if grouped == "public":
        declare = public_declare(topo, kinds, seed)
        tag += "/library-keys+flows"
    if reverse:
        declare = list(reversed(declare))
    numA = {k: v for k, v in vals.items() if k not in declare}
    D = [netcheck.apply_numeric(c, vals) for c in ref_metanet.admissible_domain(topo)]
    D = [c for c in D if not z3.is_true(z3.simplify(c))]
    try:
        if grouped == "public":
            A = compile_public(topo, symtype, numA, compact, declare)
        elif grouped:
            A = compile_grouped(topo, symtype, numA, compact, declare)
        else:
            A = compiled.compile_terms(topo, symtype, numA, compact, False, None, declare, check_names=True, dual_route=reverse, same_display_names=reverse)
        B = compiled.compile_terms(topo, symtype, dict(vals), compact, grouped == "public", None, [], check_names=True)
    except compiled.LayoutMismatch as e:
        acc.exec_violation(PID, topo, f"casadi[{tag}]", "array", f"layout: {e}", extra={"numeric": numA, "compact": compact})
        return acc.done()
    except (symx.UnsupportedOp, symx.Inconclusive) as e:
        acc.inconclusive(f"{topo.name}: {e}")
        return acc.done()
    except Exception as e:  # noqa
        acc.exec_violation(PID, topo, f"casadi[{tag}]", "array", f"raised {type(e).__name__}: {str(e)[:300]}", extra={"numeric": numA, "compact": compact})
        return acc.done()
    acc.d["encodings"] += 2
    # structural: trailing arguments / stacked p
    if declare and not grouped:
        ni = A.names_in()
        if compact <= 0:
            if ni[-len(declare):] != declare:
                acc.exec_violation(PID, topo, f"casadi[{tag}]", "array", f"declared parameters {declare} are not the trailing arguments: {ni}", extra={"numeric": numA})
        else:
            if ni[-1] != "p" or A.F.size1_in(A.F.n_in() - 1) != len(declare):
                acc.exec_violation(PID, topo, f"casadi[{tag}]", "array", f"no stacked parameter vector p of size {len(declare)}: {ni}", extra={"numeric": numA})
    if A.F.has_free():
        acc.exec_violation(PID, topo, f"casadi[{tag}]", "array", "function has free symbols", extra={"numeric": numA})
    subs = [(z3.Real(p), symx.zconst(symx.frac_of(vals[p]))) for p in declare]
    for slot, sb in B.slot.items():
        if slot not in A.slot:
            acc.exec_violation(PID, topo, f"casadi[{tag}]", "array", f"entry {slot} missing with symbolic parameters", extra={"numeric": numA})
            continue
        ta = z3.substitute(A.slot[slot].t, *subs) if subs else A.slot[slot].t
        if mainstream:
            # with numbers for a, v_free, rho_crit CasADi folds V(rho_crit) to a float constant; fold the same applications
            # (now with constant arguments) to the float value of the real function -- the same libm exp/pow
            ta = discharge.fold_ufs(ta)

        def on_sat(model, slot=slot):
            env = netcheck.model_env(topo, model, rng, vals)
            env.update({k: float(v) for k, v in vals.items()})
            a, b = A.numeric_call(env)[slot], B.numeric_call(env)[slot]
            if numrun.close(a, b, 1e-7, 1e-9):
                return None
            return {"key": f"param:{topo.name}:{tag}:{slot}", "group": f"param:{topo.name}:{'+'.join(kinds)}",
                    "what": f"{topo.describe()} | {tag}: entry {slot} = {a!r} with symbolic parameters evaluated at their values, {b!r} with plain numbers",
                    "replay": {"property": PID, "kind": "param", "topo": topo.to_json(), "symtype": symtype, "compact": compact, "kinds": list(kinds), "seed": seed,
                               "reverse": reverse, "env": env, "slot": list(slot), "mode": grouped if isinstance(grouped, str) else ("grouped" if grouped else "plain")}}

        acc.query(prover, topo, f"casadi[{tag}]", f"entry {slot}: symbolic parameters at their values == plain numbers", ta == sb.t, D, (), on_sat)
    return acc.done(prover)


def replay(rec):
    if rec["kind"] == "exec":
        print(rec["msg"])
        return 1
    topo = T_.Topo.from_json(rec["topo"])
    vals = numrun.exact_params(topo, rec["seed"])
    declare = names_of(topo, rec["kinds"])
    mode = rec.get("mode", "plain")
    if mode == "public":
        declare = public_declare(topo, rec["kinds"], rec["seed"])
    if rec["reverse"]:
        declare = list(reversed(declare))
    numA = {k: v for k, v in vals.items() if k not in declare}
    if mode == "public":
        A = compile_public(topo, rec["symtype"], numA, rec["compact"], declare)
    elif mode == "grouped":
        A = compile_grouped(topo, rec["symtype"], numA, rec["compact"], declare)
    else:
        A = compiled.compile_terms(topo, rec["symtype"], numA, rec["compact"], False, None, declare, dual_route=rec["reverse"], same_display_names=rec["reverse"])
    B = compiled.compile_terms(topo, rec["symtype"], dict(vals), rec["compact"], mode == "public", None, [])
    slot = tuple(rec["slot"])
    a, b = A.numeric_call(rec["env"])[slot], B.numeric_call(rec["env"])[slot]
    print(f"entry {slot}: symbolic parameters -> {a!r}; plain numbers -> {b!r}")
    return 0 if numrun.close(a, b, 1e-7, 1e-9) else 1


def has_main(t):
    return any(k == "main" for _, k in t.origins.values())


def main():
    args = harness.Args(PID)
    if args.replay:
        sys.exit(replay(harness.load_replay(args.replay)))
    t0 = time.time()
    K = [t for t in families.curated() if not has_main(t)] + [t for t in families.curated() if has_main(t)]
    timeout = 20000
    items = []
    subsets_q = [()] + [(k,) for k in KINDS] + [KINDS, ("rhocrit", "a", "T"), ("vfree", "tau", "delta", "C")]
    if args.thorough:
        test_net = K[0]
        allsub = [tuple(k for k, b in zip(KINDS, bits) if b) for bits in itertools.product((0, 1), repeat=len(KINDS))]
        for j, sub in enumerate(allsub):
            items.append((test_net.to_json(), ("SX", "MX")[j % 2], j % 3, sub, args.seed, 60000, bool(j % 2)))
        for k, t in enumerate(K[1:] + [x for x in families.E(3, 4) if not has_main(x)]):
            for j in range(6):
                sub = subsets_q[(k * 5 + j * 3) % len(subsets_q)]
                items.append((t.to_json(), ("SX", "MX")[(k + j) % 2], (k + j) % 3, sub, args.seed + k, 60000, bool((k + j) % 2)))
    else:
        for k, t in enumerate(K):
            picks = subsets_q if k < 3 else [subsets_q[(k * 3 + j * 5) % len(subsets_q)] for j in range(3)] + [KINDS]
            for j, sub in enumerate(picks):
                items.append((t.to_json(), ("SX", "MX")[(k + j) % 2], (k + j) % 3, sub, args.seed + k, timeout, bool((k + j) % 2)))
    # one declared vector per parameter kind (a concatenation of symbols is a legitimate declared parameter)
    for k, t in enumerate(K):
        if args.thorough or k % 3 == 0:
            for st in ("SX", "MX"):
                items.append((t.to_json(), st, (k + (st == "MX")) % 3, ("rhocrit", "vfree", "a", "T") if k % 2 else ("rhocrit", "C", "tau"), args.seed + k, timeout, False, True))
    # declared under the library's own keys ('rho_crit', 'v_free', 'a', 'C', ...), one element's symbol per key, flows requested too
    for k, t in enumerate(K):
        for j in range(4 if args.thorough else 2):
            items.append((t.to_json(), ("SX", "MX")[(k + j) % 2], (k + j) % 3, (KINDS, ("rhocrit", "C", "T"), ("vfree", "a", "delta"), ("rhocrit", "vfree"))[(k + j) % 4], args.seed + k + j, timeout, False, "public"))
    if args.only:
        items = [it for it in items if args.only in it[0]["name"]]
    results = harness.pmap(work, items, args.serial)
    viol, inc, tot, levels, samples, st, extra = netcheck.summarize(results)
    cov = netcheck.base_coverage(
        tot, levels, samples, st, len(items),
        "program = (topology, SX|MX, compactness level, subset of parameter kinds made symbolic, declared order natural|reversed -- in the reversed programs the model "
        "parameters are additionally forwarded as **other_parameters, the second documented route, and all symbols of one kind share one display name); one query per result entry: "
        "IR with symbolic parameters, numbers substituted == IR compiled with plain numbers; 'library-keys+flows' programs declare one element's symbol per kind under the "
        "library's own parameter name (rho_crit, v_free, a, C, tau, ...) and compare the flow outputs (more_out) as well",
        {"bounds": {"family": "K (20 curated, mainstream origins included)" + (" + E(3,4); all 512 subsets on the test network" if args.thorough else "; 13 subsets on 3 topologies, 4 rotating subsets on the others"),
                    "parameter_values": "dyadic / power-of-two divisors so that float constant folding is exact"},
         "functions_encoded": ["Engine.to_function(parameters=...) / _add_parameters_to_inputs IR", "element layer with symbolic vs numeric parameters (CasADi engine)"]})
    assumptions = ["mainstream-origin topologies: with numeric a, v_free, rho_crit CasADi folds V(rho_crit) to a float constant; the substituted symbolic side folds the same constant-argument exp/pow applications with the same libm (float-exact comparison)",
                   "exact real arithmetic; parameter values exactly representable", "lanes always numeric here"]
    harness.finish(args, "translation_validation", cov, assumptions, viol, inc, t0)


if __name__ == "__main__":
    main()
