"""C13 -- the selected engine is the default; an explicit engine is always honoured.

 (a) CrossHair (z3) on the real engines.use(name) with a symbolic string: unknown names raise
     EngineNotFoundError and leave get_current_engine() / sym_metanet.engine untouched, the two
     known names select an instance of the right class (reachability twin must be refuted);
     all selection sequences of length <= 3 over {names, instances, invalid names} are enumerated
     against a one-line model (plain enumeration, stated as such).
 (b) for every ordered pair (selected, explicit) over {NumPy-symbolic, SX, MX, Trap} and every
     topology of family K (all element kinds): net.step(engine=explicit) is executed by the real
     code with both engines wrapped in call recorders.  Assertions: no call reaches the selected
     engine; every leaf of every next state has the explicit engine's value type; the next-state
     terms equal those obtained when the explicit engine is also the selected one (z3 equality of
     the symbolic NumPy terms / of the translated IR); the selection is unchanged.  With no engine
     passed, the selected one is used."""
from __future__ import annotations

import itertools
import os
import sys
import time

import z3

from vlib import chrun, discharge, families, harness, layout, netcheck, numrun, ref_metanet, runs, symx, sx2smt, topo as T_
from vlib.symx import S, SymArray

PID = "C13"
CH = os.path.join(harness.ROOT, "checks", "crosshair", "ch_c13.py")


def make_recorder(inner, log):
    from sym_metanet.engines.core import EngineBase

    class _Sub:
        def __init__(self, obj, tag):
            self._o, self._t = obj, tag

        def __getattr__(self, name):
            f = getattr(self._o, name)

            def g(*a, **k):
                log.append(f"{self._t}.{name}")
                return f(*a, **k)

            return g

    class Rec(EngineBase):
        @property
        def nodes(self):
            return _Sub(inner.nodes, "nodes")

        @property
        def links(self):
            return _Sub(inner.links, "links")

        @property
        def origins(self):
            return _Sub(inner.origins, "origins")

        @property
        def destinations(self):
            return _Sub(inner.destinations, "destinations")

        def var(self, *a, **k):
            log.append("var")
            return inner.var(*a, **k)

        def vcat(self, *a):
            log.append("vcat")
            return inner.vcat(*a)

        def max(self, a, b):
            log.append("max")
            return inner.max(a, b)

        def to_function(self, *a, **k):
            log.append("to_function")
            return inner.to_function(*a, **k)

    return Rec()


def make_trap(log):
    """an engine every use of which is recorded and fails loudly."""
    from sym_metanet.engines.core import EngineBase

    class _T:
        def __getattr__(self, name):
            def g(*a, **k):
                log.append(f"trap.{name}")
                raise AssertionError(f"selected (trap) engine used: {name}")
            return g

    class Trap(EngineBase):
        nodes = links = origins = destinations = property(lambda self: _T())

        def var(self, *a, **k):
            log.append("trap.var")
            raise AssertionError("selected (trap) engine used: var")

        def vcat(self, *a):
            log.append("trap.vcat")
            raise AssertionError("selected (trap) engine used: vcat")

        def max(self, a, b):
            log.append("trap.max")
            raise AssertionError("selected (trap) engine used: max")

        def to_function(self, *a, **k):
            log.append("trap.to_function")
            raise AssertionError("selected (trap) engine used: to_function")

    return Trap()


def inner_engine(kind):
    if kind == "numpy":
        return runs.numpy_engine()
    return runs.casadi_engine(kind)


def leaf_type_ok(kind, val):
    import casadi as cs
    if kind == "numpy":
        try:
            symx.leaves(val)
            return True
        except Exception:
            return False
    return isinstance(val, getattr(cs, kind))


def step_with(topo, explicit_kind, selected_kind, pass_engine, flags_bits):
    """returns dict with logs, types, terms (z3) of the step result."""
    from sym_metanet import engines

    log_sel, log_exp = [], []
    sel = make_trap(log_sel) if selected_kind == "trap" else make_recorder(inner_engine(selected_kind), log_sel)
    exp = sel if not pass_engine else make_recorder(inner_engine(explicit_kind), log_exp)
    engines.use(sel)
    kind = explicit_kind if pass_engine else selected_kind
    flags = runs.flags_of(flags_bits)
    numeric = netcheck.casadi_numeric_for(topo)
    res = {"exc": None}
    try:
        if kind == "numpy":
            def fn():
                P = runs.sym_params(topo, numeric)
                built = T_.build(topo, P)
                ic = runs.init_conditions(built, runs.sym_inputs(topo, "array"))
                built.net.step(init_conditions=ic, engine=exp if pass_engine else None, **flags, **T_.model_kwargs(topo, P))
                return runs.collect_next(topo, built)

            res["types_ok"] = True
            res["terms"] = {}
            for k, pr in enumerate(symx.explore(fn, domain=ref_metanet.admissible_domain(topo))):
                if pr.exc is not None:
                    raise pr.exc
                nxt = pr.value
                res["types_ok"] &= all(leaf_type_ok(kind, v) for v in nxt.values())
                # one term per component: fold the paths into If-terms on the path condition (same order in the baseline run)
                for (el, st), v in nxt.items():
                    for i, s in enumerate(symx.leaves(v)):
                        res["terms"][("next", el, st, i, k)] = z3.And(*pr.pc, s.t == s.t) if False else s.t
        else:
            P, symbolic = runs.cas_params(topo, kind, numeric)
            built = T_.build(topo, P)
            kw = T_.model_kwargs(topo, P)
            built.net.step(engine=exp if pass_engine else None, **flags, **kw)
            nxt = runs.collect_next(topo, built)
            res["types_ok"] = all(leaf_type_ok(kind, v) for v in nxt.values())
            # compile with a *fresh plain* engine of the same kind: compilation is not under test here
            F = inner_engine(kind).to_function(built.net, compact=0, more_out=False, parameters=symbolic, **{k: v for k, v in kw.items() if k not in symbolic})
            ins, outs = layout.expected(topo, built, 0, list(symbolic), False)
            named, _ = sx2smt.translate(F, layout.binder(ins))
            res["terms"] = {sl: s.t for (nm, vals), (_, slots) in zip(named, outs) for s, sl in zip(vals, slots)}
    except Exception as e:  # noqa
        res["exc"] = e
    res["selected_calls"] = list(log_sel) if pass_engine else []
    res["explicit_calls"] = len(log_exp) if pass_engine else len(log_sel)
    res["selection_unchanged"] = engines.get_current_engine() is sel
    return res


def work(item):
    kind = item[0]
    if kind == "ch":
        _, func, timeout_s = item
        st, txt, dt = chrun.run(CH, func, timeout_s)
        out = {"item": f"crosshair:{func}", "violations": [], "inconclusive": [], "samples": [{"crosshair": func, "status": st, "seconds": round(dt, 1), "text": txt[-200:]}],
               "n_queries": 0, "levels": {}, "runs": 0}
        if func.endswith("twin"):
            if st != "refuted":
                out["inconclusive"].append(f"crosshair twin {func}: {st}")
        elif st == "refuted":
            out["violations"].append({"key": "c13:use", "what": f"engines.use contract violated: {txt[-300:]}", "replay": {"property": PID, "kind": "use", "text": txt[-300:]}})
        elif st != "confirmed":
            out["inconclusive"].append(f"crosshair {func}: {st}: {txt[-200:]}")
        return out
    if kind == "seq":
        return work_seq(item)
    _, tj, explicit, selected, pass_engine, bits = item
    topo = T_.Topo.from_json(tj)
    acc = netcheck.Acc(f"{topo.name}:sel={selected}:exp={explicit if pass_engine else '-'}")
    acc.d["runs"] = 1
    prover = discharge.Prover(timeout_ms=20000)
    tag = f"selected={selected}, explicit={explicit if pass_engine else 'none passed'}, options={bits:06b}"
    r = step_with(topo, explicit, selected, pass_engine, bits)
    rec = {"property": PID, "kind": "pair", "topo": topo.to_json(), "explicit": explicit, "selected": selected, "pass_engine": pass_engine, "bits": bits}

    def bad(what):
        acc.d["violations"].append({"key": f"c13:{topo.name}:{tag}:{what[:40]}", "group": f"{what[:50]}", "what": f"{topo.describe()} | {tag}: {what}", "replay": rec})

    if r["exc"] is not None:
        bad(f"step raised {type(r['exc']).__name__}: {str(r['exc'])[:200]}")
        return acc.done()
    if pass_engine and explicit == "numpy" and selected in ("numpy", "SX"):
        # element-level API: every element initialised with an explicit engine A, then B selected, then every element
        # stepped WITHOUT an engine -> the selected engine B computes everything, A nothing
        from sym_metanet import engines as _E
        from sym_metanet.engines.numpy import Engine as _NE
        la, lb = [], []
        A_, B_ = make_recorder(_NE("rand"), la), make_recorder(_NE("rand"), lb)
        try:
            vals = numrun.exact_params(topo, 2)
            b = T_.build(topo, vals)
            for el in b.net.elements:
                el.init_vars(engine=A_)
            _E.use(B_)
            del la[:]
            kw = T_.model_kwargs(topo, vals)
            import numpy as _np
            with _np.errstate(all="ignore"):
                for o in b.net.origins:
                    o.step(net=b.net, **kw)
                for _, _, l in b.net.links:
                    l.step(net=b.net, **kw)
            if la:
                bad(f"element-level steps without an engine used the engine of an earlier explicit initialisation instead of the selected one: {sorted(set(la))[:5]}")
            if not lb:
                bad("element-level steps without an engine did not use the selected engine")
        except Exception as e:  # noqa
            bad(f"element-level init/step sequence raised {type(e).__name__}: {str(e)[:160]}")
    if pass_engine:
        # a step with an explicit engine that FAILS (a model parameter is missing) must leave the selection untouched too
        from sym_metanet import engines as _E
        sel2 = make_recorder(inner_engine(selected if selected != "trap" else "numpy"), [])
        _E.use(sel2)
        try:
            b = T_.build(topo, numrun.exact_params(topo, 1))
            kw = T_.model_kwargs(topo, numrun.exact_params(topo, 1))
            kw.pop("kappa")
            b.net.step(engine=inner_engine(explicit), **kw)
            bad("a step without the model parameter kappa did not raise")
        except Exception:  # noqa
            pass
        if _E.get_current_engine() is not sel2:
            bad("the engine selection changed after a FAILING step with an explicit engine")
    if pass_engine and r["selected_calls"]:
        bad(f"the selected engine was used although an engine was passed explicitly: {sorted(set(r['selected_calls']))[:6]}")
    if r["explicit_calls"] == 0:
        bad("the engine that should have been used recorded no call")
    if not r["types_ok"]:
        bad("a next state does not have the value type of the engine that should have been used")
    if not r["selection_unchanged"]:
        bad("the engine selection changed during the step")
    # baseline: explicit engine is also the selected one
    k = explicit if pass_engine else selected
    base = step_with(topo, k, k, False, bits)
    if base["exc"] is not None:
        acc.inconclusive(f"{topo.name}: baseline raised {base['exc']!r}")
        return acc.done()
    acc.d["encodings"] += 2
    for sl, t in r["terms"].items():
        if sl not in base["terms"]:
            bad(f"result entry {sl} missing in the baseline")
            continue
        acc.query(prover, topo, tag, f"{sl}: same term as with selected == explicit", t == base["terms"][sl], (), (), lambda m: None)
    return acc.done(prover)


def work_seq(item):
    """all selection sequences of length <= 3 (enumerated) against the obvious model."""
    from sym_metanet import engines
    import sym_metanet
    from sym_metanet.errors import EngineNotFoundError
    from sym_metanet.engines.casadi import Engine as CE
    from sym_metanet.engines.numpy import Engine as NE

    inst = {"instA": NE(), "instB": CE("MX")}
    choices = ["numpy", "casadi", "bogus", "", "NumPy", "instA", "instB", 42, "core", "__init__", "numpy ", "casadi.Engine"]
    out = {"item": "selection sequences", "violations": [], "inconclusive": [], "samples": [], "n_queries": 0, "levels": {}, "runs": 0}
    for L in (1, 2, 3):
        for seq in itertools.product(choices if L < 3 else choices[:8], repeat=L):
            out["runs"] += 1
            cur = engines.use(NE())
            for c in seq:
                arg = inst.get(c, c) if isinstance(c, str) else c
                try:
                    e = engines.use(arg)
                    if c in inst:
                        ok = e is inst[c]
                    elif c == "numpy":
                        ok = isinstance(e, NE) and e is not cur
                    elif c == "casadi":
                        ok = isinstance(e, CE)
                    else:
                        ok = False
                    cur = e
                except EngineNotFoundError:
                    ok = c not in ("numpy", "casadi") and c not in inst
                except Exception as ex:  # noqa  (non-string, non-engine arguments may raise something else)
                    ok = not isinstance(c, str)
                ok = ok and engines.get_current_engine() is cur and sym_metanet.engine is cur
                if not ok:
                    out["violations"].append({"key": f"c13:seq:{seq}", "group": "selection sequence", "what": f"selection sequence {seq}: wrong current engine after {c!r}",
                                              "replay": {"property": PID, "kind": "seq", "seq": [str(x) for x in seq]}})
                    break
    out["samples"].append({"selection_sequence": ["casadi", "bogus", "instA"], "checked": "current engine after every selection"})
    return out


def replay(rec):
    if rec["kind"] == "pair":
        topo = T_.Topo.from_json(rec["topo"])
        r = step_with(topo, rec["explicit"], rec["selected"], rec["pass_engine"], rec["bits"])
        print({k: (v if k != "terms" else len(v)) for k, v in r.items()})
        return 1 if (r["exc"] is not None or r["selected_calls"] or not r["types_ok"] or not r["selection_unchanged"] or r["explicit_calls"] == 0) else 0
    print(rec)
    return 1


def main():
    args = harness.Args(PID)
    if args.replay:
        sys.exit(replay(harness.load_replay(args.replay)))
    t0 = time.time()
    items = [("ch", "use_contract", 120), ("ch", "use_reachability_twin", 60), ("seq",)]
    K = families.curated()
    kinds = ["numpy", "SX", "MX"]
    for k, t in enumerate(K):
        pairs = [(e, s) for e in kinds for s in kinds + ["trap"]]
        if not args.thorough:
            pairs = [p for j, p in enumerate(pairs) if (j + k) % 3 == 0] + [("numpy", "trap"), ("SX", "trap")]
        for (e, s) in pairs:
            # the positivity options route through engine.max inside init_vars/step: every other topology runs
            # its explicit-engine pairs with all six options on (both tiers)
            bits = 0 if k % 2 == 0 else 0b111111
            items.append(("pair", t.to_json(), e, s, True, bits))
        # ... and every topology has the trap-selected pairs with the complementary option set
        for e in (("numpy", "SX") if not args.thorough else kinds):
            items.append(("pair", t.to_json(), e, "trap", True, 0b111111 if k % 2 == 0 else 0))
        for s in kinds:
            items.append(("pair", t.to_json(), s, s, False, 0b111111 if k % 3 == 0 else 0))
    if args.only:
        items = [it for it in items if it[0] != "pair" or args.only in it[1]["name"]]
    results = harness.pmap(work, items, args.serial)
    viol, inc, samples = [], [], []
    runs_ = nq = 0
    levels = {}
    for r in results:
        if "error" in r:
            inc.append(f"{r['item']}: worker error {r['error']} {r.get('trace','')[-300:]}")
            continue
        viol += r["violations"]
        inc += r["inconclusive"]
        samples += r["samples"][:1]
        runs_ += r.get("runs", 0)
        nq += r.get("n_queries", 0)
        for k, v in r.get("levels", {}).items():
            levels[k] = levels.get(k, 0) + v
    cov = {"states": max(1, runs_), "transitions": max(1, nq), "traces_validated_against_impl": runs_, "evaluations": max(1, runs_), "distinct_nontrivial": max(2, runs_),
           "rule": "state = one real step under a (selected, explicit|none) engine pair on one topology with call recorders (or one selection sequence); transitions = z3 equalities "
                   "between the step's terms and the baseline's (selected == explicit)",
           "queries_by_result": levels, "pairs": sum(1 for it in items if it[0] == "pair"),
           "functions_encoded": ["engines.use / get_current_engine (CrossHair, symbolic str)", "every element method's engine forwarding (Network.step with recorders)",
                                 "engines.core.EngineBase subclasses (recorder, trap)"],
           "samples": samples[:10], "exhaustive": False}
    assumptions = ["engine kinds: NumPy (symbolic arrays), CasADi SX, CasADi MX, Trap (every method records and fails)", "selection sequences are plainly enumerated (length <= 2 over 12 choices incl. names of the package's own modules, length 3 over 8)",
                   "CrossHair bound: len(name) <= 10; 'Confirmed over all paths' required"]
    harness.finish(args, "model_checking", cov, assumptions, viol, inc, t0)


if __name__ == "__main__":
    main()
