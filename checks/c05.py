"""C05 -- extra flow outputs are the flows the state update actually used.

On the IR of the real compiled function with more_out=True (SX, MX; compact 0/1/2; symbolic
parameters routed through `parameters`, the separately-forwarded path):
 (a) every reported link flow entry  q_L[k] == rho_L[k] * v_L[k] * lam_L  of the input arguments;
 (b) every queued origin:  w+ == w + T (d - q_o_reported);
 (c) density balance of the link the origin feeds:  rho+_{m,1} == rho_{m,1} + T/(lam L) (q_in - q_{m,1})
     with q_in built by the node rule from the *reported* q_o and the *reported* link flows
     (ideal origins: clause (c) only).
z3 proves each equality for all reals."""
from __future__ import annotations

import random
import sys
import time

import z3

from vlib import compiled, discharge, families, harness, netcheck, numrun, ref_metanet, runs, symx, topo as T_, zeval

PID = "C05"
R = z3.Real


def goals(topo, slot, getv):
    """list of (label, lhs, rhs) from reported flows. slot: dict slot-> term/float; getv(name)."""
    G = []
    T = getv("T")
    for l in topo.links:
        for i in range(l.N):
            G.append((f"q_{l.name}[{i}] == rho*v*lam", slot[("q", l.name, i)],
                      getv(f"rho_{l.name}[{i}]") * getv(f"v_{l.name}[{i}]") * getv(f"lam_{l.name}")))
    for node, (o, kind) in topo.origins.items():
        qo = slot[("qo", o)]
        (m,) = topo.out_links(node)
        if kind in T_.QUEUED:
            G.append((f"w_{o}+ == w + T(d - q_o_{o} reported)", slot[("next", o, "w", 0)], getv(f"w_{o}") + T * (getv(f"d_{o}") - qo)))
        # node rule from reported quantities
        Q = qo
        for mu in topo.in_links(node):
            Q = Q + slot[("q", mu.name, mu.N - 1)]
        lam, L = getv(f"lam_{m.name}"), getv(f"L_{m.name}")
        G.append((f"rho_{m.name}+[0] == rho + T/(lam L)(q_in(reported q_o_{o}, reported link flows) - q[0])",
                  slot[("next", m.name, "rho", 0)], getv(f"rho_{m.name}[0]") + (T / (lam * L)) * (Q - slot[("q", m.name, 0)])))
    return G


def work(item):
    tj, symtype, compact, seed, timeout_ms = item[:5]
    hist = item[5] if len(item) > 5 else "fresh"
    cflags = None
    if hist == "options-on":
        hist, cflags = "fresh", runs.flags_of(0b000011)  # initial clamps only: the flow identities are stated on the clamped inputs
    rename = None
    if hist == "same-names":
        # distinct elements that share a name (validation accepts them): every flow must still be reported, in element order
        hist = "fresh"
        rename = lambda s_: ({"L": "seg", "O": "od", "D": "od"}.get(s_[0], s_) if s_ not in topo_nodes else s_)
    builder = netcheck.history_builders()[hist]
    runs.set_default_history(hist)
    topo = T_.Topo.from_json(tj)
    topo_nodes = set(topo.nodes)
    rng = random.Random(seed)
    tag = f"{symtype}/c{compact}"
    acc = netcheck.Acc(f"{topo.name}:{tag}")
    prover = discharge.Prover(timeout_ms=timeout_ms, seed=seed)
    numeric = netcheck.casadi_numeric_for(topo)
    D = [netcheck.apply_numeric(c, numeric) for c in ref_metanet.admissible_domain(topo)]
    try:
        c = compiled.compile_terms(topo, symtype, numeric, compact, True, cflags, builder=builder, rename=rename)
    except compiled.LayoutMismatch as e:
        acc.exec_violation(PID, topo, f"casadi[{tag}]", "array", f"layout: {e}", extra={"numeric": numeric, "compact": compact, "more_out": True})
        return acc.done()
    except (symx.UnsupportedOp, symx.Inconclusive) as e:
        acc.inconclusive(f"{topo.name}: {e}")
        return acc.done()
    except Exception as e:  # noqa
        acc.exec_violation(PID, topo, f"casadi[{tag}]", "array", f"raised {type(e).__name__}: {str(e)[:300]}", extra={"numeric": numeric, "compact": compact, "more_out": True})
        return acc.done()
    acc.d["encodings"] += 1
    # encoder validation
    env = numrun.sample_env(topo, rng)
    envn = dict(env)
    if numeric:
        envn.update({k: float(v) for k, v in numeric.items()})
    real = c.numeric_call(env)
    for sl, s in c.slot.items():
        if not numrun.close(zeval.evalf(s.t, envn), real[sl], 1e-9, 1e-9):
            acc.inconclusive(f"{topo.name} {tag}: encoder validation failed at {sl}")
            return acc.done()
    acc.d["validated"] += 1

    def getv(name):
        if numeric and name in numeric:
            return symx.zconst(symx.frac_of(numeric[name]))
        if cflags and (name.startswith("rho_") or name.startswith("v_")):
            return z3.If(z3.RealVal(0) >= R(name), z3.RealVal(0), R(name))  # the step uses max(0, input)
        return R(name)

    terms = {k: s.t for k, s in c.slot.items()}
    try:
        G = goals(topo, terms, getv)
    except KeyError as e:
        acc.exec_violation(PID, topo, f"casadi[{tag}]", "array", f"extra output missing: {e}", extra={"numeric": numeric, "compact": compact, "more_out": True})
        return acc.done()
    for label, lhs, rhs in G:
        def on_sat(model, label=label):
            env = netcheck.model_env(topo, model, rng, numeric)
            return replay_point(topo, symtype, compact, numeric, env, label, cflags=cflags, builder=builder, rename=rename)

        acc.query(prover, topo, f"casadi[{tag}]", label, lhs == rhs, D, (), on_sat)
    return acc.done(prover)


def replay_point(topo, symtype, compact, numeric, env, label, verbose=False, cflags=None, builder=None, rename=None):
    try:
        c = compiled.compile_terms(topo, symtype, numeric, compact, True, cflags, builder=builder, rename=rename)
        real = c.numeric_call(env)
    except Exception:  # noqa
        return None
    envn = dict(env)
    if numeric:
        envn.update({k: float(v) for k, v in numeric.items()})
    clamp = (lambda n: max(0.0, envn[n]) if (cflags and (n.startswith("rho_") or n.startswith("v_"))) else envn[n])
    for lab, lhs, rhs in goals(topo, real, clamp):
        if lab != label:
            continue
        if verbose:
            print(f"{lab}: {lhs!r} vs {rhs!r}")
        if not numrun.close(lhs, rhs, 1e-7, 1e-9):
            return {"key": f"flow:{topo.name}:{symtype}:c{compact}:{label}", "group": f"flow:{topo.name}:{label.split(' ')[0]}",
                    "what": f"{topo.describe()} | {symtype} compact={compact}: {label} fails: {lhs!r} != {rhs!r}",
                    "replay": {"property": PID, "kind": "flow", "topo": topo.to_json(), "symtype": symtype, "compact": compact, "numeric": numeric, "env": env, "label": label, "cflags": cflags}}
    return None


def replay(rec):
    if rec["kind"] == "exec":
        print(rec["msg"])
        return netcheck.replay_exec(rec) or 1
    topo = T_.Topo.from_json(rec["topo"])
    return 1 if replay_point(topo, rec["symtype"], rec["compact"], rec.get("numeric"), rec["env"], rec["label"], True, cflags=rec.get("cflags")) else 0


def main():
    args = harness.Args(PID)
    if args.replay:
        sys.exit(replay(harness.load_replay(args.replay)))
    t0 = time.time()
    topos = families.curated()
    timeout = 20000
    items = []
    for k, t in enumerate(topos):
        for st in ("SX", "MX"):
            for c in (0, 1, 2):
                if args.thorough or (k + c + (st == "MX")) % 2 == 0 or c == 0:
                    items.append((t.to_json(), st, c, args.seed + k, timeout))
    for k, t in enumerate(topos):
        # the same identities on networks that were stepped before and then had their attachments / links replaced
        hs = ["decoy-attachments-replaced", "decoy-links-replaced", "reads-interleaved", "same-names"]
        for h in (hs if args.thorough else [hs[k % 3], "same-names"]):
            items.append((t.to_json(), ("SX", "MX")[k % 2], k % 3, args.seed + k, timeout, h))
    # a 12-segment link with the initial positivity options on (arguments recovered from clamped expressions)
    for st in ("SX", "MX"):
        for c in (0, 1):
            items.append((families.long_link().to_json(), st, c, args.seed, timeout, "options-on"))
    if args.thorough:
        for k, t in enumerate(families.E(3, 4) + families.random_topos(args.seed, 30)):
            items.append((t.to_json(), ("SX", "MX")[k % 2], k % 3, args.seed + k, 60000))
    if args.only:
        items = [it for it in items if args.only in it[0]["name"]]
    results = harness.pmap(work, items, args.serial)
    viol, inc, tot, levels, samples, st, extra = netcheck.summarize(results)
    cov = netcheck.base_coverage(
        tot, levels, samples, st, len(items),
        "program = (topology, SX|MX, compactness level) compiled with more_out=True and all parameters declared symbolic; one query per reported link-flow entry, "
        "per queued origin (queue update from the reported flow) and per origin (density balance of the fed link from reported flows)",
        {"bounds": {"family": "K (20 curated) x {SX,MX} x levels" + (" (all) + E(3,4) + R(seed,30)" if args.thorough else " (level 0 always, 1/2 alternating)")},
         "functions_encoded": ["Engine.to_function(more_out=True) / _add_flows_to_outputs IR", "Link.get_flow, *.get_flow of all origin kinds (re-invoked with forwarded parameters)"]})
    assumptions = ["exact real arithmetic", "lanes numeric on the CasADi side when phi is given", "layout of the extra outputs as documented (links then origins; 'q','q_o'; stacked 'q')"]
    harness.finish(args, "translation_validation", cov, assumptions, viol, inc, t0)


if __name__ == "__main__":
    main()
