"""C14 -- dynamics are invariant to construction order, names and turn-rate scaling.

Pairs of real networks built from one description:
 (i)   different construction orders (seeded permutations of add_node/add_link/add_origin/
       add_destination calls incl. calls that implicitly create nodes, bulk calls, path-wise
       construction) -- the network's enumeration order, hence the order of sums/concatenations,
       differs;
 (ii)  arbitrary distinct renamings of all elements;
 (iii) every node's leaving turn rates multiplied by a *symbolic* factor c_n > 0.
For every element (matched through the description) z3 proves the next-state terms of both
networks equal for all reals: NumPy (joint symbolic exploration), SX and MX IR."""
from __future__ import annotations

import random
import sys
import time

import z3

from vlib import discharge, families, harness, layout, netcheck, numrun, ref_metanet, runs, symx, sx2smt, topo as T_, zeval
from vlib.symx import S, explore

PID = "C14"
R = z3.Real


def default_order(topo):
    return [("node", n) for n in topo.nodes] + [("link", l.name) for l in topo.links] + \
           [("origin", n) for n in topo.origins] + [("dest", n) for n in topo.dests]


def variants(topo, rng, n_perm):
    V = []
    base = default_order(topo)
    for k in range(n_perm):
        o = list(base)
        rng.shuffle(o)
        V.append((f"permutation#{k}", {"order": o}))
    # reversed everything
    V.append(("reversed", {"order": list(reversed(base))}))
    # bulk calls: links first (creating the nodes), then nodes in reverse
    V.append(("bulk", {"order": [("links", [l.name for l in reversed(topo.links)]), ("nodes", list(reversed(topo.nodes)))] +
                                [("dest", n) for n in topo.dests] + [("origin", n) for n in topo.origins]}))
    # path-wise: one path per link, origins/destinations attached by add_path
    po = []
    done_o, done_d = set(), set()
    for l in sorted(topo.links, key=lambda x: x.name, reverse=True):
        on = l.u if (l.u in topo.origins and l.u not in done_o) else None
        dn = l.v if (l.v in topo.dests and l.v not in done_d) else None
        done_o.add(on)
        done_d.add(dn)
        po.append(("path", ([l.u, l.name, l.v], on, dn)))
    po += [("origin", n) for n in topo.origins if n not in done_o] + [("dest", n) for n in topo.dests if n not in done_d]
    V.append(("path-wise", {"order": po}))
    # the same calls as the base construction, but every lookup is read and the network validated after every call
    V.append(("reads-interleaved", {"order": list(base), "touch": True}))
    V.append(("reads-interleaved-reversed", {"order": list(reversed(base)), "touch": True}))
    # objects replaced after the network has already been stepped: first decoy links (then decoy origins/destinations) sit
    # on the graph and the network is stepped once; then the real elements replace them through the same API calls
    V.append(("decoy-links-stepped-then-replaced", {"decoy": "links"}))
    V.append(("decoy-attachments-stepped-then-replaced", {"decoy": "attach"}))
    V.append(("reads-then-bulk-links", {"reads_then_bulk": True}))
    V.append(("turnrates-rescaled-after-a-step", {"rescale_after_step": 2.5}))
    V.append(("turnrates-as-one-element-arrays", {"beta_arrays": True}))
    V.append(("renamed", {"rename": lambda s: "zz_" + s[::-1] + "_" + str(len(s))}))
    # distinct elements (and nodes) that merely share a name: names carry no meaning for the dynamics, and validation accepts them
    V.append(("same-names", {"rename": lambda s: {"L": "seg", "O": "od", "D": "od"}.get(s[0], "n")}))
    V.append(("turnrates-scaled", {"scale": True}))
    return V


def touch_all(net):
    """read every lookup the network offers and validate it (results ignored)."""
    for name in ("nodes_by_name", "links_by_name", "nodes_by_link", "origins", "origins_by_name", "origins_by_node",
                 "destinations", "destinations_by_name", "destinations_by_node"):
        getattr(net, name)
    list(net.links)
    for n in list(net.nodes):
        list(net.in_links(n))
        list(net.out_links(n))
    list(net.elements)
    try:
        net.is_valid()
    except Exception:  # noqa
        pass


def _first_numpy_engine():
    """engine of the throw-away first step: inside a symbolic exploration the real NumPy engine with symbolic variables of its
    own, in a plain float run (replays, concrete companions) the plain NumPy engine"""
    return runs.symvar_engine() if symx.in_exploration() else runs.numpy_engine()


def build_decoy_variant(topo, P, kind, first_engine=None):
    import sym_metanet as M
    import numpy as np
    from sym_metanet.engines.numpy import Engine as NE

    built = T_.build(topo, P, order=[])  # element objects only
    vals = numrun.exact_params(topo, 3)
    decoy = T_.build(topo, vals, order=[], rename=lambda s: "decoy_" + s)
    net = built.net
    for n in topo.nodes:
        net.add_node(built.nodes[n])
    L_ = decoy.links if kind == "links" else built.links
    O_ = decoy.origins if kind == "attach" else built.origins
    D_ = decoy.dests if kind == "attach" else built.dests
    for l in topo.links:
        net.add_link(built.nodes[l.u], L_[l.name], built.nodes[l.v])
    for n, (o, k) in topo.origins.items():
        net.add_origin(O_[o], built.nodes[n])
    for n, (d, k) in topo.dests.items():
        net.add_destination(D_[d], built.nodes[n])
    if kind == "links":
        # a numeric step is possible when only the links are decoys? the real origins carry symbolic parameters -> use a
        # throw-away float parameterisation of the real origins for this first step
        saved = {o: getattr(built.origins[o], "C", None) for o in built.origins}
        for o in built.origins:
            if hasattr(built.origins[o], "C"):
                built.origins[o].C = vals.get(f"C_{o}", 2000.0)
    with np.errstate(all="ignore"):
        # first step with the kind of engine the real parameters belong to (engine's own variables)
        net.step(engine=first_engine or _first_numpy_engine(), **T_.model_kwargs(topo, vals if kind == "links" and first_engine is None else {**vals, **{k: P[k] for k in T_.MODEL_PARAMS}}))
    touch_all(net)
    if kind == "links":
        for o, c in saved.items():
            if c is not None:
                built.origins[o].C = c
    # now the real elements replace the decoys (later attachments replace earlier ones)
    for l in topo.links:
        net.add_link(built.nodes[l.u], built.links[l.name], built.nodes[l.v])
    for n, (o, k) in topo.origins.items():
        net.add_origin(built.origins[o], built.nodes[n])
    for n, (d, k) in topo.dests.items():
        net.add_destination(built.dests[d], built.nodes[n])
    return built


def build_rescaled_after_step(topo, P, factor, first_engine=None):
    """fresh network, one step, then every link's turnrate attribute is multiplied by the same factor (no API call)."""
    import numpy as np
    from sym_metanet.engines.numpy import Engine as NE

    built = T_.build(topo, P)
    with np.errstate(all="ignore"):
        built.net.step(engine=first_engine or _first_numpy_engine(), **T_.model_kwargs(topo, P))
    for l in built.links.values():
        l.turnrate = factor * l.turnrate
    return built


def build_turnrates_reassigned(topo, P, first_engine=None):
    """network built with OTHER turn rates (link k: (k + 2) x its turn rate, so the shares differ), stepped once, then every
    link's `turnrate` attribute is assigned its real value (time-varying splitting rates; no construction call): whatever the
    first step derived from the turn rates must not survive."""
    import numpy as np

    P0 = dict(P)
    for k, l in enumerate(topo.links):
        P0[f"beta_{l.name}"] = (k + 2) * P[f"beta_{l.name}"]
    built = T_.build(topo, P0)
    with np.errstate(all="ignore"):
        built.net.step(engine=first_engine or _first_numpy_engine(), **T_.model_kwargs(topo, P))
    for l in topo.links:
        built.links[l.name].turnrate = P[f"beta_{l.name}"]
    return built


def build_reads_then_bulk(topo, P, first_engine=None):
    """nodes and the first link are added one by one, every lookup is read, then ALL remaining links arrive in one
    add_links call (then origins and destinations): lookups cached before the bulk call must not survive it."""
    built = T_.build(topo, P, order=[])
    net = built.net
    for n in topo.nodes:
        net.add_node(built.nodes[n])
    first = topo.links[0]
    net.add_link(built.nodes[first.u], built.links[first.name], built.nodes[first.v])
    touch_all(net)
    if topo.links[1:]:
        net.add_links([(built.nodes[l.u], built.links[l.name], built.nodes[l.v]) for l in topo.links[1:]])
    for n, (o, k) in topo.origins.items():
        net.add_origin(built.origins[o], built.nodes[n])
    for n, (d, k) in topo.dests.items():
        net.add_destination(built.dests[d], built.nodes[n])
    return built


def build_variant(topo, P, var, first_engine=None):
    if var.get("reads_then_bulk"):
        return build_reads_then_bulk(topo, P, first_engine)
    if var.get("rescale_after_step"):
        return build_rescaled_after_step(topo, P, var["rescale_after_step"], first_engine)
    if var.get("decoy"):
        return build_decoy_variant(topo, P, var["decoy"], first_engine)
    if not var.get("touch"):
        return T_.build(topo, P, order=var.get("order"), rename=var.get("rename"))
    # one call at a time, lookups read in between
    built = None
    order = var["order"]
    import sym_metanet  # noqa
    built = T_.build(topo, P, order=[])
    for stepi in order:
        _apply_one(topo, built, stepi)
        touch_all(built.net)
    return built


def _apply_one(topo, built, stepi):
    kind, key = stepi
    net = built.net
    if kind == "node":
        net.add_node(built.nodes[key])
    elif kind == "link":
        l = topo.link(key)
        net.add_link(built.nodes[l.u], built.links[key], built.nodes[l.v])
    elif kind == "origin":
        net.add_origin(built.origins[topo.origins[key][0]], built.nodes[key])
    elif kind == "dest":
        net.add_destination(built.dests[topo.dests[key][0]], built.nodes[key])
    else:
        raise ValueError(kind)


def scaled_params(topo, P, mul):
    """beta_l -> c_{upstream node} * beta_l"""
    P2 = dict(P)
    for l in topo.links:
        P2[f"beta_{l.name}"] = mul(f"c_{l.u}", P[f"beta_{l.name}"])
    return P2


def work(item):
    tj, style, seed, timeout_ms, n_perm = item
    topo = T_.Topo.from_json(tj)
    rng = random.Random(seed)
    acc = netcheck.Acc(topo.name)
    prover = discharge.Prover(timeout_ms=timeout_ms, seed=seed)
    D = ref_metanet.admissible_domain(topo) + [R(f"c_{n}") > 0 for n in topo.nodes]
    numeric = netcheck.casadi_numeric_for(topo)
    for label, var in variants(topo, rng, n_perm):
        # ---- NumPy, joint exploration
        def fn():
            P = runs.sym_params(topo)
            X = runs.sym_inputs(topo, style)
            _, nA = runs.step_numpy(topo, P, X)
            P2 = scaled_params(topo, runs.sym_params(topo), lambda c, b: S.var(c) * b) if var.get("scale") else runs.sym_params(topo)
            if var.get("beta_arrays"):
                # what engine.var / a user array gives: a (1,) array per turn rate (same values)
                P2 = {k: (symx.SymArray.of([v]) if k.startswith("beta_") else v) for k, v in P2.items()}
            built = build_variant(topo, P2, var)
            ic = runs.init_conditions(built, runs.sym_inputs(topo, style))
            built.net.step(init_conditions=ic, engine=runs.numpy_engine(), **runs.NOFLAGS, **T_.model_kwargs(topo, P2))
            return nA, runs.collect_next(topo, built), built.net.is_valid()[0]

        try:
            prs = list(explore(fn, domain=D))
        except (symx.UnsupportedOp, symx.Inconclusive) as e:
            acc.inconclusive(f"{topo.name} {label}: {e}")
            continue
        for pr in prs:
            acc.d["encodings"] += 1
            acc.d["paths"] += 1
            if pr.exc is not None:
                acc.exec_violation(PID, topo, f"numpy[{label}]", style, f"variant '{label}' raised {type(pr.exc).__name__}: {pr.exc}")
                continue
            nA, nB, valid = pr.value
            if not valid:
                acc.exec_violation(PID, topo, f"numpy[{label}]", style, f"variant '{label}' is rejected by is_valid although it has the same elements and connections")
                continue
            for key in nA:
                if nA[key] is None or nB[key] is None:
                    acc.exec_violation(PID, topo, f"numpy[{label}]", style, f"variant '{label}': element {key[0]} has no next state '{key[1]}' after the step")
                    continue
                va, vb = symx.leaves(nA[key]), symx.leaves(nB[key])
                for i, (a, b) in enumerate(zip(va, vb)):
                    def on_sat(model, key=key, i=i, label=label):
                        env = netcheck.model_env(topo, model, rng)
                        return replay_variant(topo, style, "numpy", env, key, i, label, seed, n_perm, None)

                    acc.query(prover, topo, f"numpy[{style}]", f"{label}: {key[1]}_{key[0]}[{i}]", a.t == b.t, D, pr.pc, on_sat)
        # ---- CasADi
        for st in ("SX", "MX"):
            try:
                FA, bA, PA, declA = runs.cas_function(topo, st, numeric)
                insA, outsA = layout.expected(topo, bA, 0, list(declA), False)
                namedA, _ = sx2smt.translate(FA, layout.binder(insA))
                FB, insB, outsB, declB = cas_variant(topo, st, numeric, var)
                bindB0 = layout.binder(insB)

                def bindB(i_in, name, k, n):
                    s = bindB0(i_in, name, k, n)
                    nm = s.t.decl().name()
                    if var.get("scale") and nm.startswith("beta_"):
                        l = topo.link(nm[5:])
                        return S.var(f"c_{l.u}") * s
                    return s

                namedB, _ = sx2smt.translate(FB, bindB)
            except (symx.UnsupportedOp, symx.Inconclusive) as e:
                acc.exec_violation(PID, topo, f"casadi[{st}/{label}]", style, f"layout/translation: {e}")
                continue
            except Exception as e:  # noqa
                acc.exec_violation(PID, topo, f"casadi[{st}/{label}]", style, f"variant '{label}' raised {type(e).__name__}: {str(e)[:300]}")
                continue
            acc.d["encodings"] += 1
            termA = {}
            for (nm, vals), (_, slots) in zip(namedA, outsA):
                for s, slot in zip(vals, slots):
                    termA[slot] = s
            for (nm, vals), (_, slots) in zip(namedB, outsB):
                for s, slot in zip(vals, slots):
                    if slot not in termA:
                        acc.exec_violation(PID, topo, f"casadi[{st}/{label}]", style, f"variant has an output {slot} the base network lacks")
                        continue
                    _, el, stn, k = slot

                    def on_sat(model, el=el, stn=stn, k=k, label=label, st=st):
                        env = netcheck.model_env(topo, model, rng, numeric)
                        return replay_variant(topo, style, st, env, (el, stn), k, label, seed, n_perm, numeric)

                    acc.query(prover, topo, f"casadi[{st}]", f"{label}: {stn}_{el}[{k}]", termA[slot].t == s.t, D, (), on_sat)
    return acc.done(prover)


def cas_variant(topo, st, numeric, var):
    """compile the variant network.  With scaling, beta parameters stay the declared symbols and are
    scaled when bound (the function is the same; the *values* fed differ by the factor)."""
    P, symbolic = runs.cas_params(topo, st, numeric)
    built = build_variant(topo, P, var, runs.casadi_engine(st))
    eng = runs.casadi_engine(st)
    kw = T_.model_kwargs(topo, P)
    built.net.step(engine=eng, **runs.NOFLAGS, **kw)
    others = {k: v for k, v in kw.items() if k not in symbolic}
    F = eng.to_function(built.net, compact=0, more_out=False, parameters=symbolic, **others)
    ins, outs = layout.expected(topo, built, 0, list(symbolic), False)
    return F, ins, outs, symbolic


def replay_variant(topo, style, eng, env, key, i, label, seed, n_perm, numeric, verbose=False):
    var = dict(variants(topo, random.Random(seed), n_perm))[label]
    env2 = dict(env)
    if var.get("scale"):
        for l in topo.links:
            env2[f"beta_{l.name}"] = env[f"beta_{l.name}"] * env.get(f"c_{l.u}", 2.0)
    if eng == "numpy":
        ra, ea = numrun.numpy_float(topo, env, style)
        P = numrun.float_params(topo, env2)
        if var.get("beta_arrays"):
            import numpy as _np
            P = {k: (_np.array([v]) if k.startswith("beta_") else v) for k, v in P.items()}
        try:
            built = build_variant(topo, P, var)
            built.net.step(init_conditions=runs.init_conditions(built, runs.float_inputs(topo, env2, style)), engine=runs.numpy_engine(),
                           **runs.NOFLAGS, **T_.model_kwargs(topo, P))
            nb = runs.collect_next(topo, built)
            import numpy as np
            rb = {k: [float(x) for x in np.atleast_1d(np.asarray(v, dtype=float)).reshape(-1)] for k, v in nb.items()}
        except Exception as e:  # noqa
            return None
        if ea is not None:
            return None
        x, y = ra[tuple(key)][i], rb[tuple(key)][i]
    else:
        try:
            FA, bA, PA, declA = runs.cas_function(topo, eng, numeric)
            x = dict(numrun.casadi_float(FA, numrun.casadi_args(FA, topo, declA, env)))[f"{key[1]}_{key[0]}+"][i]
            FB, insB, outsB, declB = cas_variant(topo, eng, numeric, var)
            args = [[(numeric[z] if numeric and z in numeric else env2[z]) for z in zs] for _, zs in insB]
            res = numrun.casadi_float(FB, args)
            y = None
            for (nm, vals), (_, slots) in zip(res, outsB):
                for v, slot in zip(vals, slots):
                    if slot == ("next", key[0], key[1], i):
                        y = v
        except Exception:  # noqa
            return None
    if verbose:
        print(f"{eng}: base network {key[1]}_{key[0]}[{i}] = {x!r}; variant '{label}' = {y!r}")
    if numrun.close(x, y, 1e-7, 1e-9):
        return None
    return {"key": f"variant:{topo.name}:{label}:{eng}:{key[1]}_{key[0]}[{i}]", "group": f"variant:{topo.name}:{label.split('#')[0]}",
            "what": f"{topo.describe()} | {eng}: variant '{label}' gives next {key[1]}_{key[0]}[{i}] = {y!r}, base construction gives {x!r}",
            "replay": {"property": PID, "kind": "variant", "topo": topo.to_json(), "style": style, "engine": eng, "env": env, "target": [list(key), i],
                       "label": label, "seed": seed, "n_perm": n_perm, "numeric": numeric}}


def replay(rec):
    if rec["kind"] == "exec":
        print(rec["msg"])
        return netcheck.replay_exec(rec) or 1
    topo = T_.Topo.from_json(rec["topo"])
    key, i = rec["target"]
    return 1 if replay_variant(topo, rec["style"], rec["engine"], rec["env"], key, i, rec["label"], rec["seed"], rec["n_perm"], rec.get("numeric"), True) else 0


def main():
    args = harness.Args(PID)
    if args.replay:
        sys.exit(replay(harness.load_replay(args.replay)))
    t0 = time.time()
    topos = families.curated()
    n_perm = 3
    timeout = 20000
    if args.thorough:
        topos = topos + families.E(3, 4)[::2] + families.random_topos(args.seed, 20)
        n_perm = 8
        timeout = 60000
    items = [(t.to_json(), ("array", "scalar")[k % 2], args.seed + k, timeout, n_perm if t.name.startswith("k") else 2) for k, t in enumerate(topos)
             if not args.only or args.only in t.name]
    results = harness.pmap(work, items, args.serial)
    viol, inc, tot, levels, samples, st, extra = netcheck.summarize(results)
    cov = netcheck.base_coverage(
        tot, levels, samples, st, len(items),
        "program = topology; per program: (n_perm seeded permutations + reversed + bulk + path-wise + reads-then-bulk-links + renamed + same-names + symbolic turn-rate scaling) variants x "
        "(NumPy joint exploration, SX, MX); one query per variant, engine and next-state component: variant term == base term",
        {"bounds": {"family": "K (20 curated)" + (" + every 2nd of E(3,4) + R(seed,20)" if args.thorough else ""), "permutations_per_topology": n_perm,
                    "scale_factors": "one symbolic c_n > 0 per node", "values": "all reals (L1) / admissible domain (fallback)"},
         "functions_encoded": ["Network.add_node(s)/add_link(s)/add_origin/add_destination/add_path", "Network.step / views iteration order", "Node.get_upstream_speed_and_flow (sums, turn rates)",
                               "Engine.to_function enumeration order"]})
    assumptions = ["elements are matched through the description (identity of the element objects), not through names", "exact real arithmetic (sums re-associated freely)"]
    harness.finish(args, "model_checking", cov, assumptions, viol, inc, t0)


if __name__ == "__main__":
    main()
