"""C15 -- both engines compute the same value for every model primitive.

For every primitive of the engine interface, every variant (in/out, limited/unlimited, with /
without origin flow, merging and lane-drop terms, VSL subsets) and every argument shape the
element layer produces (0-d, length-1, length-N <= 3): the real NumPy primitive is executed on
symbolic values (all paths), the real CasADi primitive on SX / MX symbols (IR translated);
z3 must prove (1) equality for ALL reals (non-zero denominators), (2) that both results are
defined (finite) on the admissible domain including boundary zeros, (3) equal result sizes."""
from __future__ import annotations

import math
import random
import sys
import time

import z3

from vlib import discharge, harness, netcheck, numrun, prims, symx, zeval

PID = "C15"


def sample_env(v, rng):
    env = {}
    for a in v.args:
        if a.is_static:
            continue
        for z in prims.zvars(a):
            n = z.decl().name()
            base = a.name
            lo, hi = {"a": (1.5, 2.5), "r": (0.0, 1.0), "alpha": (0.0, 0.2), "T": (0.002, 0.01), "tau": (0.004, 0.01),
                      "rho_max": (150, 200), "rho_crit": (25, 40), "v_free": (90, 130), "lanes": (1, 4), "L": (0.5, 2),
                      "kappa": (20, 60), "eta": (30, 90), "C": (1500, 3000), "lanes_drop": (1, 2)}.get(base, (5, 90))
            env[n] = rng.uniform(lo, hi)
    return env


def work(item):
    idx, thorough, seed, timeout_ms = item
    v = prims.variants(thorough)[idx]
    rng = random.Random(seed + idx)
    acc = netcheck.Acc(v.name)
    ex = acc.d["extra"]
    ex["definedness_queries"] = 0
    D = prims.default_domain(v)
    prover = discharge.Prover(timeout_ms=timeout_ms, seed=seed)
    if thorough:
        netcheck.start_recording()
    try:
        npaths = prims.run_numpy(v, D)
    except (symx.UnsupportedOp, symx.Inconclusive) as e:
        acc.inconclusive(f"{v.name}: {e}")
        return acc.done()
    cas = {}
    for st in ("SX", "MX"):
        try:
            cas[st] = prims.run_casadi(v, st)
        except (symx.UnsupportedOp, symx.Inconclusive) as e:
            acc.inconclusive(f"{v.name} {st}: {e}")
        except Exception as e:  # noqa
            cas[st] = e
    for pc, nvals, exc, shape, obl in npaths:
        acc.d["paths"] += 1
        acc.d["encodings"] += 1
        for st, c in cas.items():
            if isinstance(c, Exception) and exc is None:
                acc.d["violations"].append(viol(v, st, f"CasADi {st} primitive raised {type(c).__name__}: {str(c)[:200]} while the NumPy primitive returns a value", None))
                continue
            if exc is not None and not isinstance(c, Exception):
                acc.d["violations"].append(viol(v, st, f"NumPy primitive raised {type(exc).__name__}: {exc} while the CasADi {st} primitive returns a value", None))
                continue
            if exc is not None:
                continue
            cvals, F, sargs, info = c
            if len(cvals) != len(nvals):
                acc.d["violations"].append(viol(v, st, f"NumPy result has {len(nvals)} entries, CasADi {st} result has {len(cvals)}", None))
                continue
            # encoder validation
            env = sample_env(v, rng)
            if all(_tb(c_, env) for c_ in pc):
                real_n, e1 = prims.run_numpy_float(v, env)
                real_c = prims.run_casadi_float(F, sargs, env)
                for i in range(len(nvals)):
                    if e1 is None and not numrun.close(zeval.evalf(nvals[i].t, env), real_n[i], 1e-9, 1e-9):
                        acc.inconclusive(f"{v.name}: NumPy encoder validation failed")
                    if not numrun.close(zeval.evalf(cvals[i].t, env), real_c[i], 1e-9, 1e-9):
                        acc.inconclusive(f"{v.name}: CasADi {st} encoder validation failed")
                acc.d["validated"] += 1
            for i, (a, b) in enumerate(zip(nvals, cvals)):
                def on_sat(model, i=i, st=st):
                    env2 = sample_env(v, rng)
                    env2.update({k: x for k, x in (model or {}).items() if k in env2})
                    return replay_point(v, st, env2, i)

                penv = [{k: x for k, x in sample_env(v, rng).items() if k.split("[")[0] in prims.POS | {"alpha"}} for _ in range(3)]
                acc.query(prover, None, f"{v.name} numpy vs {st}", f"out[{i}] equal", a.t == b.t, D, pc, on_sat, retry_envs=penv)
                for side, s in (("numpy", a), (st, b)):
                    if s.d is None:
                        continue
                    ex["definedness_queries"] += 1

                    def on_sat_d(model, i=i, side=side, st=st):
                        env2 = sample_env(v, rng)
                        env2.update({k: x for k, x in (model or {}).items() if k in env2})
                        return replay_finite(v, side, st, env2, i)

                    acc.query(prover, None, f"{v.name} {side}", f"finite(out[{i}])", s.d, D, pc, on_sat_d, sample=False, retry_envs=penv)
        for kind, cond, opc, note in obl:
            acc.query(prover, None, f"{v.name} numpy", note, cond, D, opc, lambda m: None, sample=False)
        # boundary arguments given as STRUCTURAL zeros of a sparse CasADi vector (first / last entry of a vector argument):
        # the CasADi primitive must return what the NumPy primitive returns when that entry is the number 0
        if exc is None:
            for a_ in v.args:
                if a_.is_static or a_.n < 2:
                    continue
                for idx in (0, a_.n - 1):
                    zv = z3.Real(f"{a_.name}[{idx}]")
                    D0 = list(D) + [zv == 0]
                    chk = z3.Solver()
                    chk.set("timeout", 5000)
                    chk.add(*D0, *pc)
                    if str(chk.check()) != "sat":
                        continue  # a zero there is not admissible for this variant (or not on this path)
                    for st in ("SX", "MX"):
                        tag = f"{v.name} numpy vs {st}, {a_.name}[{idx}] a structural zero"
                        try:
                            cz, Fz, sargs_z, _ = prims.run_casadi(v, st, (a_.name, idx))
                        except (symx.UnsupportedOp, symx.Inconclusive) as e:
                            acc.inconclusive(f"{tag}: {e}")
                            continue
                        except Exception as e:  # noqa
                            acc.d["violations"].append(viol(v, st, f"CasADi {st} primitive raised {type(e).__name__}: {str(e)[:200]} when {a_.name}[{idx}] is a structural zero of a sparse vector", None))
                            continue
                        ex["sparse_zero_encodings"] = ex.get("sparse_zero_encodings", 0) + 1
                        if len(cz) != len(nvals):
                            acc.d["violations"].append(viol(v, st, f"with {a_.name}[{idx}] a structural zero the CasADi {st} result has {len(cz)} entries, NumPy {len(nvals)}", None))
                            continue
                        for i, (a, b) in enumerate(zip(nvals, cz)):
                            def on_sat_z(model, i=i, st=st, sz=(a_.name, idx)):
                                env2 = sample_env(v, rng)
                                env2.update({k: x for k, x in (model or {}).items() if k in env2})
                                env2[f"{sz[0]}[{sz[1]}]"] = 0.0
                                return replay_point(v, st, env2, i, sparse_zero=sz)

                            a0 = z3.substitute(a.t, (zv, z3.RealVal(0)))
                            acc.query(prover, None, tag, f"out[{i}] equal", a0 == b.t, D0, pc, on_sat_z, retry_envs=[dict(e_, **{f"{a_.name}[{idx}]": 0.0}) for e_ in penv_all(v, rng)])
    # plain-execution companion: integer-dtype arrays holding whole numbers must give what float arrays give
    import numpy as np
    for trial in range(3):
        env = {k: float(round(x)) or 1.0 for k, x in sample_env(v, rng).items()}
        a_f, e1 = prims.run_numpy_float(v, env)
        try:
            args_i = []
            for a_ in v.args:
                if a_.is_static:
                    args_i.append(a_.static)
                elif a_.n == 0:
                    args_i.append(int(env[a_.name]) if a_.name in ("rho", "v", "q", "w", "d") else float(env[a_.name]))
                elif a_.n < 0:
                    args_i.append(np.zeros(0))
                else:
                    args_i.append(np.array([int(env[f"{a_.name}[{i}]"]) for i in range(a_.n)], dtype=np.int64))
            from sym_metanet.engines.numpy import Engine as _NE
            with np.errstate(all="ignore"):
                r_i = prims.get_prim(_NE(), v.prim)(*args_i)
            a_i = [float(x) for x in np.atleast_1d(np.asarray(r_i, dtype=float)).reshape(-1)]
        except Exception as e:  # noqa
            a_i, e1 = None, e1 or e
        ex["int_dtype_runs"] = ex.get("int_dtype_runs", 0) + 1
        if e1 is None and a_i is not None and a_f is not None and any(not numrun.close(x, y, 1e-9, 1e-9) for x, y in zip(a_f, a_i)):
            acc.d["violations"].append(viol(v, "int", f"NumPy primitive with integer-dtype arrays gives {a_i}, with the same numbers as float arrays {a_f}",
                                            {"property": PID, "kind": "structural", "variant": v.name, "symtype": "int", "what": f"int dtype {a_i} vs float {a_f} at {env}"}))
            break
    if acc.d["samples"]:
        for s in acc.d["samples"]:
            s["primitive"] = v.name
    if thorough:
        netcheck.take_recorded(acc, 2)
    return acc.done(prover)


def penv_all(v, rng):
    return [{k: x for k, x in sample_env(v, rng).items() if k.split("[")[0] in prims.POS | {"alpha"}} for _ in range(3)]


def _tb(c, env):
    try:
        return bool(zeval.evalf(c, env))
    except Exception:
        return False


def viol(v, st, what, rec):
    return {"key": f"prim:{v.name}:{st}", "group": f"prim:{v.prim}", "what": f"{v.name}: {what}",
            "replay": rec or {"property": PID, "kind": "structural", "variant": v.name, "symtype": st, "what": what}}


def replay_point(v, st, env, i, verbose=False, sparse_zero=None):
    a, e1 = prims.run_numpy_float(v, env)
    F, sargs = prims.casadi_function(v, st, tuple(sparse_zero) if sparse_zero else None)
    b = prims.run_casadi_float(F, sargs, env)
    note = f" ({sparse_zero[0]}[{sparse_zero[1]}] = 0 given to CasADi as a structural zero of a sparse vector)" if sparse_zero else ""
    if verbose:
        print(f"{v.name}{note}: numpy={a} casadi[{st}]={b} exc={e1!r}")
    if e1 is not None or a is None:
        return None
    if numrun.close(a[i], b[i], 1e-7, 1e-9):
        return None
    return viol(v, st, f"out[{i}]: NumPy = {a[i]!r}, CasADi {st} = {b[i]!r} at {env}{note}",
                {"property": PID, "kind": "differ", "variant": v.name, "symtype": st, "env": env, "i": i, "sparse_zero": list(sparse_zero) if sparse_zero else None})


def replay_finite(v, side, st, env, i, verbose=False):
    if side == "numpy":
        a, e1 = prims.run_numpy_float(v, env)
        if e1 is not None:
            return None
    else:
        F, sargs = prims.casadi_function(v, st)
        a = prims.run_casadi_float(F, sargs, env)
    if verbose:
        print(f"{v.name}: {side} = {a}")
    if math.isfinite(a[i]):
        return None
    return viol(v, st, f"{side} out[{i}] = {a[i]!r} (not finite) at admissible {env}",
                {"property": PID, "kind": "nonfinite", "variant": v.name, "symtype": st, "side": side, "env": env, "i": i})


def replay(rec):
    V = {v.name: v for v in prims.variants(True)}
    if rec.get("kind") == "structural":
        print(rec["what"])
        return 1
    v = V[rec["variant"]]
    if rec["kind"] == "differ":
        return 1 if replay_point(v, rec["symtype"], rec["env"], rec["i"], True, rec.get("sparse_zero")) else 0
    return 1 if replay_finite(v, rec["side"], rec["symtype"], rec["env"], rec["i"], True) else 0


def main():
    args = harness.Args(PID)
    if args.replay:
        sys.exit(replay(harness.load_replay(args.replay)))
    t0 = time.time()
    V = prims.variants(args.thorough)
    items = [(i, args.thorough, args.seed, 60000 if args.thorough else 20000) for i, v in enumerate(V) if not args.only or args.only in v.name]
    results = harness.pmap(work, items, args.serial)
    viol_, inc, tot, levels, samples, st, extra = netcheck.summarize(results)
    cvc5_stats, cvc5_problems = netcheck.cvc5_crosscheck(results, 64, args.serial) if args.thorough else ({"queries": 0, "note": "thorough tier only"}, [])
    inc += cvc5_problems
    cov = netcheck.base_coverage(
        tot, levels, samples, st, len(items),
        "program = primitive variant (primitive x option variant x argument shape); per variant and NumPy path: one equality query per result entry "
        "for SX and for MX, one definedness query per entry and side that can be undefined; plus, for the first and the last entry of every vector argument where a zero is admissible, the CasADi primitive re-executed with that entry a structural zero of a sparse vector == the NumPy terms at 0; non-trivial = not closed syntactically",
        {"bounds": {"primitives": sorted({v.prim for v in V}), "variants": len(V), "vector_lengths": "0-d, 1, 2, 3", "values": "all reals (equality, L1) / admissible domain with zeros (definedness)"},
         "definedness_queries": extra.get("definedness_queries", 0), "cvc5_agreement": cvc5_stats,
         "functions_encoded": ["engines.numpy: NodesEngine, LinksEngine, OriginsEngine, DestinationsEngine, Engine.max, Engine.vcat",
                               "engines.casadi: the same, through casadi.Function IR (SX, MX->expand)"]})
    assumptions = ["exact real arithmetic; DM (numeric) evaluation of the CasADi primitives is the same CasADi code evaluated numerically (trusted, sampled in encoder validation)",
                   "definedness over the reals: overflow outside; min/max NaN-propagating",
                   "integer-dtype companion runs (whole numbers in int64 arrays vs float64 arrays) are plain execution: array dtype is outside the symbolic model"]
    harness.finish(args, "model_checking", cov, assumptions, viol_, inc, t0)


if __name__ == "__main__":
    main()
