"""C06 -- validation accepts a network exactly when the nine documented conditions hold.

The real construction API + the real Network.is_valid (both `raises` modes) + views.py +
networkx are executed under the fork executor on a symbolic graph description:
   one Bool per ordered node pair (self-loops included), per node an origin kind
   {none, non-ramp, ramp} and a destination flag, and a sharing selector
   {none | one Link object on two edges | one origin on two nodes | one destination on two nodes}.
The oracle is the nine conditions as a z3 formula over the same variables (degrees as sums of
If(e,1,0)).  Per path z3 decides  path => (verdict <-> spec),  `raises=True` raises
InvalidNetworkError iff not spec and nothing else, and an invalid verdict carries >= 1 message.
Every variable decides control flow, so this is solver-driven exhaustive path exploration;
`exhaustive` is reported only when the decision tree was completed.  Beyond the bound: seeded
random graphs (plain sampling, labelled)."""
from __future__ import annotations

import itertools
import random
import sys
import time

import numpy as np
import z3

from vlib import dfork, harness, symx
from vlib.symx import SB

PID = "C06"


def spec_formula(n, E, okind, dflag, share):
    """z3 Bool: the network described is valid.  E[u][v]: Bool terms; okind[i] in {0 none,1 nonramp,2 ramp};
    dflag[i] bool; share: None | ('link', (u,v), (x,y)) | ('origin', i, j) | ('dest', i, j)"""
    one, zero = z3.IntVal(1), z3.IntVal(0)
    indeg = [z3.Sum(*[z3.If(E[u][v], one, zero) for u in range(n)]) for v in range(n)]
    outdeg = [z3.Sum(*[z3.If(E[u][v], one, zero) for v in range(n)]) for u in range(n)]
    bad = []
    if share and share[0] in ("samename", "implicit"):
        pass  # two DISTINCT elements that merely carry the same name are not a duplicated element;
        # "implicit" only changes HOW nodes enter the graph, not the graph
    elif share:
        if share[0] == "link":
            (u, v), (x, y) = share[1], share[2]
            bad.append(z3.And(E[u][v], E[x][y]))
        else:
            bad.append(z3.BoolVal(True))  # the shared origin/destination is attached to both nodes
    for i in range(n):
        has_o, has_d = okind[i] != 0, dflag[i]
        if has_o and has_d:
            bad.append(z3.BoolVal(True))
        bad.append(z3.And(indeg[i] == 0, outdeg[i] == 0))
        if not has_o:
            bad.append(indeg[i] == 0)
        if not has_d:
            bad.append(outdeg[i] == 0)
        if okind[i] == 1:
            bad.append(indeg[i] > 0)
        if has_o:
            bad.append(outdeg[i] > 1)
        if has_d:
            bad.append(indeg[i] > 1)
            bad.append(outdeg[i] > 0)
    return z3.Not(z3.Or(*bad))


_POOL = {}


def _symC():
    """capacities are 'float or variable': a CasADi symbol is a legitimate capacity"""
    import casadi as cs
    return cs.SX.sym("C")


def pooled(key, make):
    """element objects are re-used across the many networks one worker builds (an element may be used in any number of
    networks; being placed elsewhere in ANOTHER network is not a duplication)"""
    if key not in _POOL:
        _POOL[key] = make()
    return _POOL[key]


def build_and_validate(n, pairs, okind, dflag, share, flagvals=None):
    """build through the public API; edges present per symbolic flag (fork) or concrete flagvals."""
    import sym_metanet as M
    from sym_metanet.errors import InvalidNetworkError

    # names are free text: percent signs, braces and blanks must not matter
    # (under the same-name selector the nodes, too, are distinct objects that carry one name)
    nodes = [M.Node(name="samename" if (share and share[0] == "samename") else f"N{i} 50%s {{x}} %d%%") for i in range(n)]
    net = M.Network(name="c06 %s {0}")
    implicit = bool(share and share[0] == "implicit")
    for i, nd in enumerate(nodes):
        # "implicit": only nodes that nothing else can introduce are added explicitly; the others enter the
        # graph through add_link / add_origin / add_destination (some only after an intermediate validation)
        if not implicit or (okind[i] == 0 and not dflag[i]):
            net.add_node(nd)
    if implicit:
        try:
            net.is_valid(raises=False)
        except Exception:  # noqa
            pass
    links = {}
    for (u, v) in pairs:
        present = bool(SB(z3.Bool(f"e_{u}_{v}"))) if flagvals is None else flagvals[(u, v)]
        if present:
            if share and share[0] == "link" and (u, v) == share[2] and share[1] in links:
                lk = links[share[1]]
            else:
                same = bool(share and share[0] == "samename")
                k_ = len(links)
                lk = pooled(("link", k_, same), lambda: M.Link(1, 2, 1.0, 180, 30, 100, 1.8, name="samename" if same else f"L{k_}"))
            links[(u, v)] = lk
            net.add_link(nodes[u], lk, nodes[v])
    # validation is also called between the construction phases (results ignored): a lookup cached by an
    # earlier validation must not make a later verdict stale
    try:
        net.is_valid(raises=False)
    except Exception:  # noqa  (reported by the final call if it persists)
        pass
    origins = {}
    for i in range(n):
        if okind[i]:
            if share and share[0] == "origin" and i == share[2]:
                o = origins[share[1]]
            else:
                k_ = len(origins)
                alt = (i + k_) % 2 == 0
                o = pooled(("origin", okind[i], alt, k_), lambda: (
                    (M.Origin(name=f"O{k_}a") if alt else M.MainstreamOrigin(name=f"O{k_}b")) if okind[i] == 1 else
                    (M.MeteredOnRamp(_symC(), name=f"O{k_}c") if alt else M.SimplifiedMeteredOnRamp(np.array([2000.0, 1500.0])[:1] * 0 + 2000.0, name=f"O{k_}d"))))
            if share and share[0] == "samename":
                o = type(o)(2000, name="samename") if okind[i] == 2 else type(o)(name="samename")
            origins[i] = o
            net.add_origin(o, nodes[i])
    try:
        net.is_valid(raises=False)
    except Exception:  # noqa
        pass
    dests = {}
    for i in range(n):
        if dflag[i]:
            if share and share[0] == "dest" and i == share[2]:
                d = dests[share[1]]
            else:
                k_ = len(dests)
                alt = (i + k_) % 2 == 0
                d = pooled(("dest", alt, k_), lambda: M.Destination(name=f"D{k_}a") if alt else M.CongestedDestination(name=f"D{k_}b"))
            if share and share[0] == "samename":
                d = type(d)(name="samename")
            dests[i] = d
            net.add_destination(d, nodes[i])
    ok, msgs = net.is_valid(raises=False)
    raised = None
    try:
        r = net.is_valid(raises=True)
        if r[0] is not True:
            raised = "returned-invalid-without-raising"
    except InvalidNetworkError:
        raised = "InvalidNetworkError"
    return bool(ok), len(msgs), raised


def work(item):
    n, selfloops, okind, dflag, share = item
    pairs = [(u, v) for u in range(n) for v in range(n) if selfloops or u != v]
    E = [[z3.Bool(f"e_{u}_{v}") if (u, v) in pairs else z3.BoolVal(False) for v in range(n)] for u in range(n)]
    spec = spec_formula(n, E, okind, dflag, share)
    out = {"item": str(item), "paths": 0, "queries": 0, "violations": [], "inconclusive": [], "samples": [], "valid_paths": 0}
    if share and share[0] in ("origin", "dest") and len(share) == 3:
        # the shared object must be attachable to both nodes
        kinds = okind if share[0] == "origin" else dflag
        if not (kinds[share[1]] and kinds[share[2]]) or (share[0] == "origin" and okind[share[1]] != okind[share[2]]):
            return out

    def fn():
        return build_and_validate(n, pairs, okind, dflag, share)

    for pr in dfork.run_all(fn):
        out["paths"] += 1
        desc = {"n": n, "edges": [str(c) for c in pr.pc], "origin_kinds": okind, "dest_flags": dflag, "share": share}
        if pr.exc is not None:
            out["violations"].append(viol(item, pr.pc, f"is_valid/construction raised {type(pr.exc).__name__}: {pr.exc}"))
            continue
        ok, nmsgs, raised = pr.value
        out["queries"] += 1
        goal = spec if ok else z3.Not(spec)
        r = dfork.solver_says(pr.pc, goal)
        if r != "unsat":
            out["violations"].append(viol(item, pr.pc, f"is_valid reports {'valid' if ok else 'invalid'} but the nine conditions say {'invalid' if ok else 'valid'}"))
            continue
        if ok:
            out["valid_paths"] += 1
        if not ok and nmsgs < 1:
            out["violations"].append(viol(item, pr.pc, "invalid verdict without any message"))
        if ok and raised is not None:
            out["violations"].append(viol(item, pr.pc, f"raises=True gave {raised} on a valid network"))
        if not ok and raised != "InvalidNetworkError":
            out["violations"].append(viol(item, pr.pc, f"raises=True did not raise InvalidNetworkError on an invalid network ({raised})"))
        if len(out["samples"]) < 1 and out["paths"] % 7 == 3:
            desc["verdict"] = ok
            out["samples"].append(desc)
    return out


def viol(item, pc, what):
    n, selfloops, okind, dflag, share = item
    model = dfork.model_of(pc)
    edges = sorted(k for k, v in model.items() if v == "True")
    return {"key": f"c06:{what[:40]}:{okind}:{dflag}:{share}:{edges}", "group": what[:50],
            "what": f"n={n} edges={edges} origin kinds={okind} destinations={dflag} sharing={share}: {what}",
            "replay": {"property": PID, "n": n, "selfloops": selfloops, "okind": list(okind), "dflag": list(dflag), "share": share, "edges": edges}}


def replay(rec):
    n = rec["n"]
    pairs = [(u, v) for u in range(n) for v in range(n) if rec["selfloops"] or u != v]
    fv = {p: (f"e_{p[0]}_{p[1]}" in rec["edges"]) for p in pairs}
    share = rec["share"]
    if share:
        share = tuple(tuple(x) if isinstance(x, list) else x for x in share)
    E = [[z3.BoolVal(fv.get((u, v), False)) for v in range(n)] for u in range(n)]
    spec = z3.is_true(z3.simplify(spec_formula(n, E, rec["okind"], rec["dflag"], share)))
    try:
        ok, nmsgs, raised = build_and_validate(n, pairs, rec["okind"], rec["dflag"], share, fv)
    except Exception as e:  # noqa
        print("raised", repr(e))
        return 1
    print(f"nine conditions: {'valid' if spec else 'invalid'}; is_valid: {'valid' if ok else 'invalid'}, messages={nmsgs}, raises=True -> {raised}")
    good = (ok == spec) and (ok or nmsgs >= 1) and ((raised is None) == ok) and (ok or raised == "InvalidNetworkError")
    return 0 if good else 1


def shares(n, pairs):
    S = [None, ("samename",), ("implicit",)]
    if len(pairs) >= 2:
        S.append(("link", pairs[0], pairs[-1]))
        if len(pairs) >= 3:
            S.append(("link", pairs[1], pairs[2]))
    if n >= 2:
        S += [("origin", 0, 1), ("dest", 0, 1)]
        if n >= 3:
            S += [("origin", 0, 2), ("dest", 1, 2)]
    return S


def random_companion(seed, count):
    """beyond the bound: random graphs with up to 6 nodes, concrete (plain sampling)."""
    rng = random.Random(seed)
    bad = []
    for _ in range(count):
        n = rng.randint(4, 6)
        pairs = [(u, v) for u in range(n) for v in range(n)]
        fv = {p: rng.random() < 0.25 for p in pairs}
        okind = [rng.choice([0, 0, 1, 2]) for _ in range(n)]
        dflag = [rng.random() < 0.3 for _ in range(n)]
        E = [[z3.BoolVal(fv[(u, v)]) for v in range(n)] for u in range(n)]
        spec = z3.is_true(z3.simplify(spec_formula(n, E, okind, dflag, None)))
        try:
            ok, nmsgs, raised = build_and_validate(n, pairs, okind, dflag, None, fv)
        except Exception as e:  # noqa
            ok, nmsgs, raised = None, 0, repr(e)
        if ok != spec or (not ok and nmsgs < 1) or ((raised is None) != bool(ok)):
            edges = sorted(f"e_{u}_{v}" for (u, v), b in fv.items() if b)
            bad.append({"key": f"c06:random:{edges}", "group": "random", "what": f"random graph n={n} edges={edges} okind={okind} dflag={dflag}: is_valid={ok} spec={spec} raised={raised}",
                        "replay": {"property": PID, "n": n, "selfloops": True, "okind": okind, "dflag": dflag, "share": None, "edges": edges}})
    return bad


def main():
    args = harness.Args(PID)
    if args.replay:
        sys.exit(replay(harness.load_replay(args.replay)))
    t0 = time.time()
    items = []
    # n = 1 and n = 2 complete, with sharing
    for n in (1, 2):
        pairs = [(u, v) for u in range(n) for v in range(n)]
        for okind in itertools.product((0, 1, 2), repeat=n):
            for dflag in itertools.product((False, True), repeat=n):
                for sh in shares(n, pairs):
                    items.append((n, True, okind, dflag, sh))
    # n = 3: quick without self-loops and without sharing; thorough complete with self-loops + sharing on loop-free
    n = 3
    for okind in itertools.product((0, 1, 2), repeat=n):
        for dflag in itertools.product((False, True), repeat=n):
            items.append((n, args.thorough, okind, dflag, None))
            items.append((n, args.thorough, okind, dflag, ("implicit",)))
            if args.thorough:
                pairs = [(u, v) for u in range(n) for v in range(n) if u != v]
                for sh in shares(n, pairs)[1:]:
                    items.append((n, False, okind, dflag, sh))
    if args.thorough:
        # n = 4, loop-free, at most the structurally interesting attachment vectors (each node kind class), no sharing
        n = 4
        for okind in itertools.product((0, 1, 2), repeat=n):
            if sorted(okind) != list(okind):
                continue  # node-relabelling symmetry on the attachment vector (edges still all enumerated)
            for dflag in itertools.product((False, True), repeat=n):
                if sum(dflag) > 2:
                    continue
                items.append((n, False, okind, dflag, None))
    results = harness.pmap(work, items, args.serial, chunksize=4)
    viol_, inc, samples = [], [], []
    paths = queries = valid = 0
    for r in results:
        if "error" in r:
            inc.append(f"{r['item']}: worker error {r['error']}")
            continue
        viol_ += r["violations"]
        inc += r["inconclusive"]
        paths += r["paths"]
        queries += r["queries"]
        valid += r["valid_paths"]
        samples += r["samples"]
    nrand = 2000 if args.thorough else 200
    viol_ += random_companion(args.seed, nrand)
    cov = {
        "states": paths, "transitions": queries, "traces_validated_against_impl": paths,
        "evaluations": paths, "distinct_nontrivial": paths,
        "rule": "state = one path of the real construction + is_valid code (one graph); every path is a distinct graph description; transitions = solver queries "
                "path => (verdict <-> nine conditions); all of them non-trivial (no syntactic closure)",
        "valid_graphs": valid, "attachment_vectors": len(items), "random_companion_graphs": nrand,
        "bounds": {"n<=2": "complete incl. self-loops, sharing and implicit node introduction", "n=3": "complete incl. self-loops and sharing" if args.thorough else "all loop-free edge sets, all attachment vectors, explicit and implicit node introduction, no sharing",
                   "n=4": "loop-free, sorted origin-kind vectors, <= 2 destinations (thorough only)" if args.thorough else "not explored",
                   "random": f"{nrand} seeded graphs with 4-6 nodes (plain sampling)"},
        "functions_encoded": ["Network.add_node/add_link/add_origin/add_destination", "Network.is_valid(raises=False|True)", "views.InLinkViewWrapper/OutLinkViewWrapper", "networkx DiGraph views"],
        "samples": samples[:10] or [{"note": "no sample"}],
        "exhaustive": not inc and not viol_,
    }
    assumptions = ["degrees enter the code only through thresholds ==0, >0, >1; with n >= 3 every class {0,1,>=2} of in- and out-degree occurs",
                   "every symbolic variable is control-determining: the solver's role is feasibility of branches and the final implication per path (solver-driven exhaustive exploration)",
                   "origin classes: Origin/MainstreamOrigin stand for non-ramp, MeteredOnRamp/SimplifiedMeteredOnRamp for ramp"]
    harness.finish(args, "model_checking", cov, assumptions, viol_, inc, t0)


if __name__ == "__main__":
    main()
