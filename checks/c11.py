"""C11 -- positivity options are exactly clamps at zero.

For an option vector p (six booleans): the real step with p on inputs x must equal
    Clamp_next(p, Step_off(Clamp_init(p, x)))
where Step_off is the real step with all options off, executed on inputs that are already
clamped (x -> max(0, x) on exactly the quantities named by the init options), and Clamp_next
clamps exactly the quantities named by the next options.  Both steps are executed by the real
code in one symbolic exploration (NumPy) / two compiled functions (CasADi SX, MX); z3 proves
equality for ALL reals, negative ones included."""
from __future__ import annotations

import random
import sys
import time

import numpy as np
import z3

from vlib import discharge, families, harness, layout, netcheck, numrun, ref_metanet, runs, symx, sx2smt, topo as T_, zeval
from vlib.symx import S, SymArray, explore

PID = "C11"
QUANT = {"rho": "density", "v": "speed", "w": "queue"}


def clamp_S(s):
    # max(0, s) in the same syntactic form the engines' max(0, .) produces (helps the solver; semantics identical)
    from fractions import Fraction
    return symx._max(S(c=Fraction(0)), s)


def clamp_inputs(topo, X, flags):
    """Clamp_init: max(0, .) on the state inputs named by the init options."""
    out = {}
    for (el, var), val in X.items():
        q = QUANT.get(var)
        is_state = var in ("rho", "v", "w") and not (var == "v" and False)
        if is_state and q and flags[f"positive_init_{q}"]:
            if isinstance(val, S):
                out[(el, var)] = clamp_S(val)
            else:
                out[(el, var)] = SymArray.of([clamp_S(e) for e in val])
        else:
            out[(el, var)] = val
    return out


def alias_inputs(X, share):
    """density and speed of every link hold the same values, and so do queue and demand of every origin; with
    share=True they are moreover ONE array object (a caller re-using a buffer), otherwise equal separate arrays."""
    out = dict(X)
    for (el, var), val in X.items():
        src = {"v": "rho", "d": "w"}.get(var)
        if src and (el, src) in X and np.shape(X[(el, src)]) == np.shape(val):
            out[(el, var)] = X[(el, src)] if share else X[(el, src)].copy()
    return out


def clamp_next(key, s, flags):
    q = QUANT[key[1]]
    return clamp_S(s) if flags[f"positive_next_{q}"] else s


def work(item):
    tj, style, bits, seed, timeout_ms = item
    topo = T_.Topo.from_json(tj)
    flags = runs.flags_of(bits)
    rng = random.Random(seed)
    acc = netcheck.Acc(f"{topo.name}:{bits:06b}")
    prover = discharge.Prover(timeout_ms=timeout_ms, seed=seed)
    D = ref_metanet.admissible_domain(topo)  # used only to prune infeasible forks? no: forks explored for all reals
    # NumPy: one exploration, two real steps
    def fn():
        P = runs.sym_params(topo)
        X = runs.sym_inputs(topo, style)
        _, nA = runs.step_numpy(topo, P, X, flags)
        _, nB = runs.step_numpy(topo, runs.sym_params(topo), clamp_inputs(topo, runs.sym_inputs(topo, style), flags), runs.NOFLAGS)
        return nA, nB

    try:
        prs = list(explore(fn, domain=()))
    except (symx.UnsupportedOp, symx.Inconclusive) as e:
        acc.inconclusive(f"{topo.name}: {e}")
        return acc.done()
    # independent oracle with clamps: Clamp_next(p, Ref(Clamp_init(p, x)))
    zmax0 = lambda t: z3.If(z3.RealVal(0) >= t, z3.RealVal(0), t)
    ref = ref_metanet.Ref(topo, clamp_init=lambda kind, t: zmax0(t) if flags[f"positive_init_{kind}"] else t)
    oracle = {k: [zmax0(t) if flags[f"positive_next_{QUANT[k[1]]}"] else t for t in ts] for k, ts in ref.next.items()}
    for pr in prs:
        acc.d["encodings"] += 1
        acc.d["paths"] += 1
        if pr.exc is not None:
            acc.exec_violation(PID, topo, f"numpy[{style}]", style, f"raised {type(pr.exc).__name__}: {pr.exc}", flags)
            continue
        nA, nB = pr.value
        for key in nA:
            va, vb = symx.leaves(nA[key]), symx.leaves(nB[key])
            for i, (a, b) in enumerate(zip(va, vb)):
                want = clamp_next(key, b, flags)

                def on_sat(model, key=key, i=i):
                    env = netcheck.model_env(topo, model, rng)
                    return replay_point(topo, "numpy", style, flags, env, key, i)

                acc.query(prover, topo, f"numpy[{style}]", f"options {bits:06b}: {key[1]}_{key[0]}[{i}]", a.t == want.t, (), pr.pc, on_sat)
                dom = D + list(ref.extra_domain.get((key[0], key[1], i), []))
                acc.query(prover, topo, f"numpy[{style}]", f"options {bits:06b}: {key[1]}_{key[0]}[{i}] == clamped METANET oracle", a.t == oracle[key][i],
                          dom, pr.pc, lambda model, key=key, i=i: replay_oracle(topo, style, flags, netcheck.model_env(topo, model, rng), key, i))
    # NumPy, one array object supplied for several quantities (density and speed of a link; queue and demand of an origin):
    # each option still clamps only the quantity it names -- the other user of the same array keeps the unclamped values
    if bits & 0b000111 and (bits + seed) % 2 == 0 or topo.name.startswith("k01"):
        def fn_alias():
            P = runs.sym_params(topo)
            Xa, Xb = alias_inputs(runs.sym_inputs(topo, "array"), True), alias_inputs(runs.sym_inputs(topo, "array"), False)
            _, nA = runs.step_numpy(topo, P, Xa, flags)
            _, nB = runs.step_numpy(topo, runs.sym_params(topo), clamp_inputs(topo, Xb, flags), runs.NOFLAGS)
            return nA, nB

        try:
            prs2 = list(explore(fn_alias, domain=()))
        except (symx.UnsupportedOp, symx.Inconclusive) as e:
            acc.inconclusive(f"{topo.name} shared arrays: {e}")
            prs2 = []
        for pr in prs2:
            acc.d["encodings"] += 1
            acc.d["paths"] += 1
            if pr.exc is not None:
                acc.exec_violation(PID, topo, "numpy[shared-arrays]", "array", f"raised {type(pr.exc).__name__}: {pr.exc}", flags)
                continue
            nA, nB = pr.value
            for key in nA:
                for i, (a, b) in enumerate(zip(symx.leaves(nA[key]), symx.leaves(nB[key]))):
                    acc.query(prover, topo, "numpy[shared-arrays]", f"options {bits:06b}, one array object given for two quantities: {key[1]}_{key[0]}[{i}]", a.t == clamp_next(key, b, flags).t, (), pr.pc,
                              lambda model, key=key, i=i: replay_alias(topo, flags, netcheck.model_env(topo, model, rng), key, i))
    # CasADi: two compiled functions, the all-off one evaluated at clamped arguments
    numeric = netcheck.casadi_numeric_for(topo)
    for st in ("SX", "MX"):
        try:
            def prestepped(tp, P, eng):
                # the same network objects were stepped before with every option on (options must not stick to the elements)
                b = T_.build(tp, P)
                b.net.step(engine=eng, **runs.flags_of(0b111111), **T_.model_kwargs(tp, P))
                return b

            FA, bA, PA, decl = runs.cas_function(topo, st, numeric, 0, False, flags, builder=prestepped if (bits + seed) % 2 else None)
            FB, bB, PB, declB = runs.cas_function(topo, st, numeric, 0, False, runs.NOFLAGS)
            insA, outsA = layout.expected(topo, bA, 0, list(decl), False)
            insB, outsB = layout.expected(topo, bB, 0, list(declB), False)
            namedA, _ = sx2smt.translate(FA, layout.binder(insA))
            bindB0 = layout.binder(insB)

            def bindB(i_in, name, k, n):
                s = bindB0(i_in, name, k, n)
                var = name.split("_")[0]
                q = QUANT.get(var)
                if name not in declB and q and flags[f"positive_init_{q}"] and var in ("rho", "v", "w") and not name.startswith("v_ctrl"):
                    return clamp_S(s)
                return s

            namedB, _ = sx2smt.translate(FB, bindB)
        except (symx.UnsupportedOp, symx.Inconclusive) as e:
            acc.exec_violation(PID, topo, f"casadi[{st}]", style, f"layout/translation: {e}", flags, {"numeric": numeric})
            continue
        except Exception as e:  # noqa
            acc.exec_violation(PID, topo, f"casadi[{st}]", style, f"raised {type(e).__name__}: {str(e)[:300]}", flags, {"numeric": numeric})
            continue
        acc.d["encodings"] += 1
        for (nm, va), (nmB, vb), (_, slots) in zip(namedA, namedB, outsA):
            for i, (a, b) in enumerate(zip(va, vb)):
                _, el, stn, k = slots[i]
                want = clamp_next((el, stn), b, flags)

                def on_sat(model, el=el, stn=stn, k=k, st=st):
                    env = netcheck.model_env(topo, model, rng, numeric)
                    return replay_point(topo, st, style, flags, env, (el, stn), k, numeric)

                acc.query(prover, topo, f"casadi[{st}]", f"options {bits:06b}: {nm}[{i}]", a.t == want.t, (), (), on_sat)
    return acc.done(prover)


def _clamp_env(topo, env, flags):
    e2 = dict(env)
    for k in env:
        for var, q in (("rho_", "density"), ("v_", "speed"), ("w_", "queue")):
            if k.startswith(var) and flags[f"positive_init_{q}"]:
                e2[k] = max(0.0, env[k])
    return e2


def replay_point(topo, eng, style, flags, env, key, i, numeric=None, verbose=False):
    from checks import c02
    import warnings

    def run(fl, e):
        if eng == "numpy":
            return numrun.numpy_float(topo, e, style, fl)
        try:
            F, b, P, decl = runs.cas_function(topo, eng, numeric, 0, False, fl)
            res = dict(numrun.casadi_float(F, numrun.casadi_args(F, topo, decl, e)))
            return {(n[:-1].partition("_")[2], n[:-1].partition("_")[0]): v for n, v in res.items()}, None
        except Exception as ex:  # noqa
            return None, ex

    ra, ea = run(flags, env)
    rb, eb = run(runs.NOFLAGS, _clamp_env(topo, env, flags))
    if ea is not None or eb is not None:
        return None
    x = ra[tuple(key)][i]
    y = rb[tuple(key)][i]
    if flags[f"positive_next_{QUANT[key[1]]}"]:
        y = max(0.0, y) if y == y else y
    if verbose:
        print(f"{eng}: step with options = {x!r}; clamp(plain step(clamp(x))) = {y!r}")
    if numrun.close(x, y, 1e-7, 1e-9):
        return None
    return {"key": f"clamp:{topo.name}:{eng}:{key[1]}_{key[0]}[{i}]:{sorted(k for k, v in flags.items() if v)}", "group": f"clamp:{topo.name}:{eng}",
            "what": f"{topo.describe()} | {eng} options {[k for k, v in flags.items() if v]}: next {key[1]}_{key[0]}[{i}] = {x!r}, clamp semantics give {y!r}",
            "replay": {"property": PID, "kind": "clamp", "topo": topo.to_json(), "engine": eng, "style": style, "flags": flags, "env": env,
                       "target": [list(key), i], "numeric": numeric}}


def replay_alias(topo, flags, env, key, i, verbose=False):
    import warnings

    def run(fl, X):
        with warnings.catch_warnings():
            warnings.simplefilter("ignore")
            try:
                with np.errstate(all="ignore"):
                    _, nxt = runs.step_numpy(topo, numrun.float_params(topo, env), X, fl)
            except Exception:  # noqa
                return None
        return {k: [float(x) for x in np.atleast_1d(np.asarray(v, dtype=float)).reshape(-1)] for k, v in nxt.items() if v is not None}

    ra = run(flags, alias_inputs(runs.float_inputs(topo, env, "array"), True))
    Xb = alias_inputs(runs.float_inputs(topo, env, "array"), False)
    for (el, var), val in Xb.items():
        q = QUANT.get(var)
        if q and flags[f"positive_init_{q}"]:
            Xb[(el, var)] = np.maximum(0.0, val)
    rb = run(runs.NOFLAGS, Xb)
    if ra is None or rb is None:
        return None
    x, y = ra[tuple(key)][i], rb[tuple(key)][i]
    if flags[f"positive_next_{QUANT[key[1]]}"]:
        y = max(0.0, y) if y == y else y
    if verbose:
        print(f"numpy, one array object for rho and v (w and d): step with options = {x!r}; clamp(plain step(clamp(separate arrays))) = {y!r}")
    if numrun.close(x, y, 1e-7, 1e-9):
        return None
    return {"key": f"clamp-shared:{topo.name}:{key[1]}_{key[0]}[{i}]:{sorted(k for k, v in flags.items() if v)}", "group": f"clamp-shared:{topo.name}",
            "what": f"{topo.describe()} | numpy options {[k for k, v in flags.items() if v]}, the same array object supplied for density and speed (queue and demand): "
                    f"next {key[1]}_{key[0]}[{i}] = {x!r}, clamp semantics on separate equal arrays give {y!r}",
            "replay": {"property": PID, "kind": "alias", "topo": topo.to_json(), "flags": flags, "env": env, "target": [list(key), i]}}


def replay_oracle(topo, style, flags, env, key, i, verbose=False):
    zmax0 = lambda t: z3.If(z3.RealVal(0) >= t, z3.RealVal(0), t)
    ref = ref_metanet.Ref(topo, clamp_init=lambda kind, t: zmax0(t) if flags[f"positive_init_{kind}"] else t)
    want = zeval.evalf(ref.next[tuple(key)][i], env)
    if flags[f"positive_next_{QUANT[key[1]]}"]:
        want = max(0.0, want) if want == want else want
    ra, ea = numrun.numpy_float(topo, env, style, flags)
    if ea is not None:
        return None
    x = ra[tuple(key)][i]
    if verbose:
        print(f"numpy step with options = {x!r}; clamped METANET equations = {want!r}")
    if numrun.close(x, want, 1e-7, 1e-9):
        return None
    return {"key": f"clamp-oracle:{topo.name}:{key[1]}_{key[0]}[{i}]:{sorted(k for k, v in flags.items() if v)}", "group": f"clamp:{topo.name}:numpy",
            "what": f"{topo.describe()} | numpy options {[k for k, v in flags.items() if v]}: next {key[1]}_{key[0]}[{i}] = {x!r}, clamped METANET equations give {want!r}",
            "replay": {"property": PID, "kind": "oracle", "topo": topo.to_json(), "style": style, "flags": flags, "env": env, "target": [list(key), i]}}


def replay(rec):
    if rec["kind"] == "oracle":
        topo = T_.Topo.from_json(rec["topo"])
        key, i = rec["target"]
        return 1 if replay_oracle(topo, rec["style"], rec["flags"], rec["env"], key, i, True) else 0
    if rec["kind"] == "exec":
        return netcheck.replay_exec(rec)
    topo = T_.Topo.from_json(rec["topo"])
    key, i = rec["target"]
    if rec["kind"] == "alias":
        return 1 if replay_alias(topo, rec["flags"], rec["env"], key, i, True) else 0
    return 1 if replay_point(topo, rec["engine"], rec["style"], rec["flags"], rec["env"], key, i, rec.get("numeric"), True) else 0


def main():
    args = harness.Args(PID)
    if args.replay:
        sys.exit(replay(harness.load_replay(args.replay)))
    t0 = time.time()
    K = families.curated()
    singles = [1 << i for i in range(6)]
    quick_sets = singles + [0b111111, 0b001001, 0b010010, 0b100100, 0b000011, 0b110000, 0b101010]
    items = []
    timeout = 60000 if args.thorough else 20000
    for k, t in enumerate(K):
        sets = range(1, 64) if args.thorough else quick_sets
        if not args.thorough:
            # rotate: every topology gets all-on + 4 of the others, every set meets >= 6 topologies
            sets = [0b111111] + [quick_sets[(k + j) % len(quick_sets)] for j in range(0, 12, 3)]
        for bits in sets:
            items.append((t.to_json(), ("array", "scalar")[(k + bits) % 2], bits, args.seed + k, timeout))
    for bits in (0b111111, 0b000011, 0b000001, 0b001010):
        items.append((families.long_link().to_json(), "array", bits, args.seed, timeout))
    if args.thorough:
        for k, t in enumerate(families.E(3, 4)):
            items.append((t.to_json(), ("array", "scalar")[k % 2], 1 + (k * 7) % 63, args.seed + k, timeout))
    if args.only:
        items = [it for it in items if args.only in it[0]["name"]]
    results = harness.pmap(work, items, args.serial)
    viol, inc, tot, levels, samples, st, extra = netcheck.summarize(results)
    cov = netcheck.base_coverage(
        tot, levels, samples, st, len(items),
        "program = (topology, option vector); per program: NumPy (all paths of the joint exploration of both real steps), SX and MX; one query per "
        "next-state component: Step_p(x) == Clamp_next(p, Step_off(Clamp_init(p, x))); non-trivial = not closed syntactically",
        {"bounds": {"family": "K (20 curated)" + (" x all 63 non-empty option vectors + E(3,4) x rotating vectors" if args.thorough else " x {all-on + 4 rotating of 13 vectors}"),
                    "values": "ALL reals incl. negative (only non-zero denominators assumed)"},
         "functions_encoded": ["Network.step option forwarding", "Link.init_vars / step_dynamics clamps", "MainstreamOrigin/MeteredOnRamp(.simplified).init_vars / step_dynamics clamps",
                               "Engine.max (numpy, casadi)", "casadi _filter_vars (symbol recovery under clamps)"]})
    assumptions = ["exact real arithmetic; for negative bases of non-integer powers both sides are the same uninterpreted application (NaN in floats on both sides)",
                   "the all-off step itself is checked against the model by C01"]
    harness.finish(args, "model_checking", cov, assumptions, viol, inc, t0)


if __name__ == "__main__":
    main()
