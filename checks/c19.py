"""C19 -- a function is only produced for a fully initialised and stepped network.

Bounded real histories (all sequences up to the length bound, SX and MX) over
   step(T1) | step(T2) | a step that fails after its initialisation phase (tau forgotten) | init(L1) | init(O1) | init(destination) | add ramp O2 at N2 | add branch N2-L3->N4+D2
   | replace the destination by a congested one | compile(level 0|1|2)
on a valid two-link network (metered ramp, free destination that can be replaced by a congested one).  A small abstract model tracks
per element {uninitialised, initialised, stepped-current, stepped-stale}.  At every compile:
   raises RuntimeError  <=>  some element with declared states/actions/disturbances lacks them, or an
   element with states lacks a next state, or a next state predates a re-initialisation;
   if a function is returned: no free symbols, and (level 0) z3 proves every result equal to the
   METANET successor computed from the CURRENT symbols with the sampling time of the MOST RECENT
   step (so a stale or cached function is caught), for all reals."""
from __future__ import annotations

import itertools
import random
import sys
import time

import z3

from vlib import compiled, discharge, harness, layout, netcheck, numrun, ref_metanet, runs, symx, sx2smt, topo as T_, zeval
from vlib.topo import LinkSpec, Topo

PID = "C19"
T1, T2 = 1 / 256, 1 / 128
OPS = ["step(T1)", "step(T2)", "step_fail", "init(L1)", "init(O1)", "init(D1)", "add_ramp", "add_branch", "replace_dest", "replace_origin", "compile(0)", "compile(1)", "compile(2)"]


def topo_for(has_ramp, has_branch, dest="D1", origin="O1", ideal_base=False):
    links = [LinkSpec("L1", "N1", "N2", 2), LinkSpec("L2", "N2", "N3", 1)]
    nodes = ["N1", "N2", "N3"]
    origins = {"N1": (origin, ("ideal" if ideal_base else "ramp_out") if origin == "O1" else "main")}
    dests = {"N3": (dest, "free" if dest == "D1" else "cong")}
    if has_ramp and not has_branch:
        origins["N2"] = ("O2", "simp_lim")
    if has_branch:
        links.append(LinkSpec("L3", "N2", "N4", 1))
        nodes.append("N4")
        dests["N4"] = ("D2", "free")
    return Topo("c19", nodes, links, origins, dests, delta=True)


# operations that occur only among the first two calls of a history (keeps the enumeration affordable)
OPS_PREFIX_ONLY = ["step_elements_fail_last"]


class World:
    def __init__(self, symtype, seed):
        import sym_metanet as M

        self.M, self.symtype = M, symtype
        self.vals = numrun.exact_params(topo_for(True, True), seed)
        self.vals.update(numrun.exact_params(topo_for(True, False), seed))
        self.vals["beta_L2"] = self.vals["beta_L3"] = 0.5  # turn rates of N2's leaving links sum to 1 (exact float folding)
        v = self.vals
        mk = lambda n, N: M.Link(N, v[f"lam_{n}"], v[f"L_{n}"], v[f"rhomax_{n}"], v[f"rhocrit_{n}"], v[f"vfree_{n}"], v[f"a_{n}"], v[f"beta_{n}"], name=n)
        self.nodes = {n: M.Node(name=n) for n in ("N1", "N2", "N3", "N4")}
        self.links = {"L1": mk("L1", 2), "L2": mk("L2", 1), "L3": mk("L3", 1)}
        if symtype == "SX":
            self.links["L3"].name = "L2"  # a distinct link that merely carries the name of an existing one (SX histories only)
        self.origins = {"O1": M.MeteredOnRamp(v["C_O1"], name="O1"), "O2": M.SimplifiedMeteredOnRamp(v["C_O2"], name="O2"),
                        "O3": M.MainstreamOrigin(name="O3")}
        self.origin_name = "O1"
        self.ideal_base = symtype == "MX"  # MX histories start from an ideal (state-less) origin, SX ones from a metered ramp
        if self.ideal_base:
            self.origins["O1"] = M.Origin(name="O1")
        self.dests = {"D1": M.Destination(name="D1"), "D2": M.Destination(name="D2"), "D3": M.CongestedDestination(name="D3")}
        self.dest_name = "D1"
        if symtype == "MX":
            self.origins["O1"] = M.Origin(name="O1")
        self.net = M.Network(name="c19").add_path([self.nodes["N1"], self.links["L1"], self.nodes["N2"], self.links["L2"], self.nodes["N3"]],
                                                  origin=self.origins["O1"], destination=self.dests["D1"])
        self.engine = runs.casadi_engine(symtype)
        # abstract model
        self.present = ["L1", "L2", "O1", "D1"]
        self.status = {e: "uninit" for e in self.present}  # uninit | init | current | stale
        self.has_ramp = self.has_branch = False
        self.lastT = None

    def has_vars(self, e):
        if e == "O1" and getattr(self, "ideal_base", False):
            return False
        return e not in ("D1", "D2")  # free destinations declare no variables; the congested destination D3 declares a disturbance

    def has_states(self, e):
        if e == "O1" and getattr(self, "ideal_base", False):
            return False
        return e[0] in "LO"

    def kw(self, T):
        v = self.vals
        return dict(T=T, tau=v["tau"], eta=v["eta"], kappa=v["kappa"], delta=v["delta"])

    def apply(self, op):
        """execute op for real and update the model.  returns (kind, payload)."""
        if op == "step_fail":
            # tau is forgotten: every element is (re-)initialised, the origins are stepped, the first link raises
            kw = self.kw(T1)
            kw.pop("tau")
            try:
                self.net.step(engine=self.engine, **kw)
                return "skip", None
            except TypeError:
                pass
            for e in self.present:
                if e[0] == "O":
                    self.status[e] = "current"
                elif e[0] == "L":
                    self.status[e] = "stale" if self.status[e] in ("current", "stale") else "init"
                else:
                    self.status[e] = "init" if self.has_vars(e) else self.status[e]
            self.lastT = T1
            self.in_step = set(self.present)
            return "ok", None
        if op == "step_elements_fail_last":
            # what Network.step does, call by call on the elements -- but the LAST link is stepped with tau forgotten and raises:
            # every element is (re-)initialised, every origin and every other link gets its next state, the last link does not
            kw = self.kw(T1)
            for el in self.net.elements:
                el.init_vars(engine=self.engine)
            for o in self.net.origins:
                o.step(net=self.net, engine=self.engine, **kw)
            ls = [l for _, _, l in self.net.links]
            for l in ls[:-1]:
                l.step(net=self.net, engine=self.engine, **kw)
            kw.pop("tau")
            try:
                ls[-1].step(net=self.net, engine=self.engine, **kw)
                return "skip", None
            except TypeError:
                pass
            last = next(k for k, v in self.links.items() if v is ls[-1])
            for e in self.present:
                if e == last:
                    self.status[e] = "stale" if self.status[e] in ("current", "stale") else "init"
                elif e[0] in "OL":
                    self.status[e] = "current"
                else:
                    self.status[e] = "init" if self.has_vars(e) else self.status[e]
            self.lastT = T1
            self.in_step = set(self.present)
            self.topo_at_step = topo_for(self.has_ramp, self.has_branch, self.dest_name, self.origin_name, self.ideal_base)
            return "ok", None
        if op.startswith("step"):
            T = T1 if "T1" in op else T2
            self.net.step(engine=self.engine, **self.kw(T))
            for e in self.present:
                self.status[e] = "current"
            self.lastT = T
            self.in_step = set(self.present)
            self.topo_at_step = topo_for(self.has_ramp, self.has_branch, self.dest_name, self.origin_name, self.ideal_base)
            return "ok", None
        if op == "replace_origin":
            if self.origin_name == "O3":
                return "skip", None
            # a mainstream origin (states, actions, disturbances) replaces the metered ramp at the source node
            self.net.add_origin(self.origins["O3"], self.nodes["N1"])
            self.present = [("O3" if e == "O1" else e) for e in self.present]
            self.status.pop("O1", None)
            self.status["O3"] = "uninit"
            self.origin_name = "O3"
            return "ok", None
        if op == "replace_dest":
            if self.dest_name == "D3":
                return "skip", None
            # a new congested destination (no states, but a disturbance) replaces the old one on the same node
            self.net.add_destination(self.dests["D3"], self.nodes["N3"])
            self.present = [("D3" if e == "D1" else e) for e in self.present]
            self.status.pop("D1", None)
            self.status["D3"] = "uninit"
            self.dest_name = "D3"
            return "ok", None
        if op.startswith("init"):
            e = op[5:-1]
            if e == "D1":
                e = self.dest_name
            if e == "O1":
                e = self.origin_name
            el = self.links.get(e) or self.origins.get(e) or self.dests.get(e)
            el.init_vars(engine=self.engine)
            if not self.has_vars(e):
                return "ok", None  # nothing is (re-)created for an element without variables
            if self.status[e] == "uninit":
                self.status[e] = "init"  # first initialisation of a newly added element: nothing computed so far refers to it
                return "ok", None
            if e not in getattr(self, "in_step", set()):
                return "ok", None  # its symbols did not exist when the network was last stepped: no next state refers to them
            # RE-initialisation of an element that took part in the last step: every next state computed then refers to replaced symbols
            for x in self.present:
                if self.status[x] in ("current", "stale"):
                    self.status[x] = "stale"
            return "ok", None
        if op == "add_ramp":
            if self.has_ramp or self.has_branch:
                return "skip", None
            self.net.add_origin(self.origins["O2"], self.nodes["N2"])
            self.has_ramp = True
            self.present.append("O2")
            self.status["O2"] = "uninit"
            return "ok", None
        if op == "add_branch":
            if self.has_branch or self.has_ramp:
                return "skip", None
            self.net.add_path([self.nodes["N2"], self.links["L3"], self.nodes["N4"]], destination=self.dests["D2"])
            self.has_branch = True
            self.present += ["L3", "D2"]
            self.status["L3"] = "uninit"
            self.status["D2"] = "uninit"
            return "ok", None
        if op.startswith("compile"):
            c = int(op[8])
            try:
                F = self.engine.to_function(self.net, compact=c, more_out=False, **self.kw(self.lastT or T1))
                return "function", (c, F)
            except RuntimeError as e:
                return "runtime_error", str(e)[:200]
        raise ValueError(op)

    def should_raise(self):
        for e in self.present:
            st = self.status[e]
            if self.has_vars(e) and st == "uninit":
                return f"{e} not initialised"
            if self.has_states(e) and st in ("uninit", "init"):
                return f"{e} has no next state"
            if st == "stale" and (self.has_states(e)):
                return f"next state of {e} predates a re-initialisation"
        if any(self.status[e] == "stale" for e in self.present):
            return "a next state predates a re-initialisation"
        return None


def check_function(w: World, c, F, prover, acc, hist):
    topo = topo_for(w.has_ramp, w.has_branch, w.dest_name, w.origin_name, w.ideal_base)
    if F.has_free():
        return "returned function has free symbols"
    if c != 0:
        return None
    numeric = {k: v for k, v in w.vals.items() if k in T_.param_names(topo)}
    numeric["T"] = w.lastT
    class B:  # minimal 'built' facade for layout.expected
        net, links, origins, dests = w.net, {k: v for k, v in w.links.items() if k in w.present}, {k: v for k, v in w.origins.items() if k in w.present}, {k: v for k, v in w.dests.items() if k in w.present}
    try:
        ins, outs = layout.expected(topo, B, 0, [], False)
        named, _ = sx2smt.translate(F, layout.binder(ins))
    except (symx.Inconclusive, symx.UnsupportedOp) as e:
        return f"layout of the returned function: {e}"
    ref = ref_metanet.Ref(getattr(w, "topo_at_step", topo))  # the network as it was when it was last stepped
    for (nm, vals), (_, slots) in zip(named, outs):
        for s, (_, el, st, i) in zip(vals, slots):
            r = discharge.fold_ufs(netcheck.apply_numeric(ref.next[(el, st)][i], numeric))  # constant-argument exp/pow as CasADi folds them
            dom = [netcheck.apply_numeric(d, numeric) for d in ref_metanet.admissible_domain(topo)]
            dom += [discharge.fold_ufs(netcheck.apply_numeric(d, numeric)) for d in ref.extra_domain.get((el, st, i), [])]
            ok = acc.query(prover, topo, f"history {hist}", f"{nm}[{i}] reflects the most recent step", s.t == r, dom, (), lambda m: None, sample=True)
            if not ok:
                # decide numerically (replay) whether it is a real disagreement
                env = numrun.sample_env(topo, random.Random(1))
                env.update({k: float(v) for k, v in numeric.items()})
                args = [[env[z] for z in zs] for _, zs in ins]
                got = dict(numrun.casadi_float(F, args))[nm][i]
                want = zeval.evalf(r, env)
                acc.d["inconclusive"] = [x for x in acc.d["inconclusive"] if "does not reproduce" not in x or str(hist) not in x]
                if not numrun.close(got, want, 1e-7, 1e-9):
                    return f"result {nm}[{i}] = {got!r} does not reflect the most recent step (expected {want!r} with T={w.lastT})"
    return None


def run_history(symtype, hist, seed, prover, acc):
    w = World(symtype, seed)
    for k, op in enumerate(hist):
        expect = w.should_raise() if op.startswith("compile") else None
        try:
            kind, payload = w.apply(op)
        except Exception as e:  # noqa
            if op.startswith("compile"):
                return f"compile raised {type(e).__name__} (not RuntimeError): {str(e)[:150]}", k
            if op.startswith("step") or op.startswith("init"):
                return f"{op} raised {type(e).__name__}: {str(e)[:150]}", k
            raise
        if kind == "skip":
            return "skip", k
        if op.startswith("compile"):
            acc.d["extra"]["compiles"] += 1
            if expect and kind == "function":
                return f"compile returned a function although {expect}", k
            if not expect and kind == "runtime_error":
                return f"compile raised RuntimeError on a fully initialised and stepped network: {payload}", k
            if kind == "function":
                acc.d["extra"]["functions_returned"] += 1
                msg = check_function(w, payload[0], payload[1], prover, acc, list(hist[:k + 1]))
                if msg:
                    return msg, k
            else:
                acc.d["extra"]["runtime_errors"] += 1
    return None, len(hist)


def work(item):
    symtype, prefix, length, seed = item
    acc = netcheck.Acc(f"{symtype}:{prefix}")
    acc.d["extra"].update({"histories": 0, "compiles": 0, "functions_returned": 0, "runtime_errors": 0})
    prover = discharge.Prover(timeout_ms=20000, seed=seed)
    seen_fail = set()
    for L in range(len(prefix), length + 1):
        for tail in itertools.product(OPS, repeat=L - len(prefix)):
            hist = tuple(prefix) + tail
            if not hist or not hist[-1].startswith("compile"):
                continue  # only histories ending in a compile are observations
            acc.d["extra"]["histories"] += 1
            acc.d["encodings"] += 1
            msg, k = run_history(symtype, hist, seed, prover, acc)
            if msg and msg != "skip":
                h = list(hist[:k + 1])
                if tuple(h) in seen_fail:
                    continue
                seen_fail.add(tuple(h))
                acc.d["violations"].append({"key": f"c19:{symtype}:{h}", "group": msg[:60], "what": f"{symtype} history {h}: {msg}",
                                            "replay": {"property": PID, "symtype": symtype, "history": h, "seed": seed}})
    return acc.done(prover)


def replay(rec):
    acc = netcheck.Acc("replay")
    acc.d["extra"].update({"histories": 0, "compiles": 0, "functions_returned": 0, "runtime_errors": 0})
    msg, k = run_history(rec["symtype"], tuple(rec["history"]), rec["seed"], discharge.Prover(), acc)
    print(f"history {rec['history']}: {msg or 'behaves as specified'}")
    return 1 if msg else 0


def main():
    args = harness.Args(PID)
    if args.replay:
        sys.exit(replay(harness.load_replay(args.replay)))
    t0 = time.time()
    length = 5 if args.thorough else 4
    items = []
    for st in ("SX", "MX"):
        for p in itertools.product(OPS + OPS_PREFIX_ONLY, repeat=2):
            items.append((st, p, length, args.seed))
        items.append((st, (), 1, args.seed))
        for p in OPS:
            if p.startswith("compile"):
                items.append((st, (p,), 1, args.seed))
    results = harness.pmap(work, items, args.serial, chunksize=2)
    viol, inc, tot, levels, samples, st, extra = netcheck.summarize(results)
    cov = netcheck.base_coverage(
        tot, levels, samples, st, len(items),
        "trace = one real history (sequence of construction / initialisation / step / compile calls, every sequence up to the length bound that ends in a compile, SX and MX); "
        "every compile is compared with the abstract model's verdict; every level-0 function returned is translated and proven equal to the METANET successor of the current symbols",
        {"bounds": {"history_length": length, "alphabet": OPS, "additional_operations_in_the_first_two_positions": OPS_PREFIX_ONLY, "symbol_types": ["SX", "MX"]},
         "histories": extra.get("histories", 0), "compiles_observed": extra.get("compiles", 0), "functions_returned": extra.get("functions_returned", 0),
         "runtime_errors_observed": extra.get("runtime_errors", 0),
         "functions_encoded": ["Engine.to_function (initialisation / stepping scan, has_free)", "Network.step", "element init_vars", "Network.add_origin / add_path"]})
    cov["traces_validated_against_impl"] = extra.get("histories", 0)
    cov["states"] = max(1, extra.get("compiles", 0))
    cov["evaluations"] = max(1, extra.get("histories", 0))
    cov["distinct_nontrivial"] = max(2, extra.get("histories", 0))
    cov["exhaustive"] = not viol and not inc
    assumptions = ["universe: two-link network with metered ramp and congested destination; one optional simplified ramp or one optional branch with free destination",
                   "histories are enumerated (bounded); values inside returned functions are symbolic and decided by z3",
                   "re-initialisation of any element makes every earlier next state stale (its expressions refer to replaced symbols)"]
    harness.finish(args, "model_checking", cov, assumptions, viol, inc, t0)


if __name__ == "__main__":
    main()
