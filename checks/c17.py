"""C17 -- origin flows respect demand, capacity and space limits; queues stay non-negative.

Inequalities decided by z3 for ALL admissible tuples:
   0 <= q,  q <= d + w/T,  q <= C (ramps) | q <= lam*V(rho_crit)*rho_crit (mainstream),
   rho_1 = rho_max -> q = 0 (ramps),  hence  w+ = w + T (d - q) >= 0
(1) primitive level: the real NumPy primitives on symbolic values (all paths) and the real CasADi
    primitives (SX/MX IR), composed with the real step_queue primitive;
(2) network level on family K: the origin flow actually used by Network.step (recovered from
    the queue update, and the reported q_o of the compiled function) with the parameters of the
    link the origin feeds -- checks that the right link's rho_1, rho_max, rho_crit, lam are wired in.
The mainstream capacity clause is decided modulo the analytic lemma L-cap (DESIGN 2.4/4)."""
from __future__ import annotations

import random
import sys
import time

import z3

from vlib import discharge, families, harness, netcheck, numrun, prims, ref_metanet, runs, symx, topo as T_, zeval
from vlib.prims import A, ST, Variant
from vlib.symx import uf_exp, uf_pow

PID = "C17"
R = z3.Real


def lcap_lemmas(classes):
    """L-cap: y>0, 0<r<=1, x == -log(r)/y, z == -y  ->  r * pow(x, y) <= exp(z)   [max of rho*V(rho) at rho_crit]."""
    L = []
    ex = [c for c in classes if c.fname == "uf_exp"]
    lg = [c for c in classes if c.fname == "uf_log"]
    pw = [c for c in classes if c.fname == "uf_pow"]
    for p in pw:
        x, y = p.args
        for l in lg:
            (r,) = l.args
            for e in ex:
                (z,) = e.args
                L.append(z3.Implies(z3.And(y > 0, r > 0, r <= 1, x * y == -l.var, z == -y), r * p.var <= e.var))
    return L


class LcapProver(discharge.Prover):
    def lemmas(self, classes):
        return super().lemmas(classes) + lcap_lemmas(classes)


def prim_variants():
    V = []
    for n in (0, 1):
        tag = "0d" if n == 0 else "len1"
        for ty in ("in", "out"):
            V.append(("ramp", Variant("origins.get_ramp_flow", f"{ty}/{tag}",
                                      [A("d", n), A("w", n), A("C"), A("r", n), A("rho_max"), A("rho_first"), A("rho_crit"), A("T"), ST("type", ty)])))
        V.append(("ramp", Variant("origins.get_simplifiedramp_flow", f"limited/{tag}",
                                  [A("qdes", n), A("d", n), A("w", n), A("C"), A("rho_max"), A("rho_first"), A("rho_crit"), A("T"), ST("type", "limited")])))
        V.append(("main", Variant("origins.get_mainstream_flow", tag,
                                  [A("d", n), A("w", n), A("v_ctrl", n), A("v_first"), A("rho_crit"), A("a"), A("v_free"), A("lanes"), A("T")])))
    return V


def claims(kind, q, d, w, T, C=None, rho1=None, rho_max=None, cap=None):
    """list of (label, Bool) for one origin flow term q."""
    out = [("q >= 0", q >= 0), ("q <= d + w/T", q <= d + w / T), ("w+ = w + T(d - q) >= 0", w + T * (d - q) >= 0)]
    if kind == "ramp":
        out.append(("q <= C", q <= C))
        out.append(("rho_1 = rho_max -> q = 0", z3.Implies(rho1 == rho_max, q == 0)))
    else:
        out.append(("q <= lam*V(rho_crit)*rho_crit", q <= cap))
    return out


def work_prim(item):
    idx, seed, timeout_ms = item
    kind, v = prim_variants()[idx]
    rng = random.Random(seed + idx)
    acc = netcheck.Acc(v.name)
    D = prims.default_domain(v)
    if kind == "ramp":
        D.append(R("rho_first") <= R("rho_max"))
    prover = LcapProver(timeout_ms=timeout_ms, seed=seed)
    n = next(a.n for a in v.args if a.name == "d")
    sfx = "" if n == 0 else "[0]"
    d, w, T = R("d" + sfx), R("w" + sfx), R("T")
    encs = []
    try:
        for pc, vals, exc, shape, obl in prims.run_numpy(v, D):
            encs.append(("numpy", pc, vals, exc))
        for st in ("SX", "MX"):
            cvals, F, sargs, info = prims.run_casadi(v, st)
            encs.append((st, [], cvals, None))
    except (symx.UnsupportedOp, symx.Inconclusive) as e:
        acc.inconclusive(f"{v.name}: {e}")
        return acc.done()
    for eng, pc, vals, exc in encs:
        acc.d["encodings"] += 1
        if eng == "numpy":
            acc.d["paths"] += 1
        if exc is not None:
            acc.d["violations"].append({"key": f"exec:{v.name}:{eng}", "what": f"{v.name} {eng} raised {exc!r}", "replay": {"property": PID, "kind": "exec", "what": repr(exc)}})
            continue
        q = vals[0].t
        # the queue update through the real step_queue primitive is w + T*(d - q): composed symbolically below
        if kind == "ramp":
            cl = claims(kind, q, d, w, T, R("C"), R("rho_first"), R("rho_max"))
        else:
            vf, rc, a, lam = R("v_free"), R("rho_crit"), R("a"), R("lanes")
            cap = lam * (vf * uf_exp((-1 / a) * uf_pow(rc / rc, a))) * rc
            cl = claims(kind, q, d, w, T, cap=cap)
        for label, goal in cl:
            def on_sat(model, label=label, eng=eng):
                env = {a_.name if a_.n == 0 else f"{a_.name}[0]": 1.0 for a_ in v.args if not a_.is_static}
                env.update({k: x for k, x in (model or {}).items() if k in env})
                return replay_prim(v, kind, eng, env, label)

            prm = {"rho_max": 160.0, "rho_crit": 32.0, "C": 2048.0, "T": 0.004, "a": 1.8, "v_free": 110.0, "lanes": 2.0}
            penv = [{a_.name: prm[a_.name] * (1 + 0.1 * j) for a_ in v.args if not a_.is_static and a_.name in prm} for j in range(3)]
            acc.query(prover, None, f"{v.name} {eng}", label, goal, D, pc, on_sat, retry_envs=penv)
    for s in acc.d["samples"]:
        s["primitive"] = v.name
    return acc.done(prover)


def _bounds_hold(kind, q, env_get, label):
    d, w, T = env_get("d"), env_get("w"), env_get("T")
    tol = 1e-9 * (1 + abs(q))
    if label == "q >= 0":
        return q >= -tol
    if label == "q <= d + w/T":
        return q <= d + w / T + tol * (1 + abs(d + w / T))
    if label.startswith("w+"):
        return w + T * (d - q) >= -1e-9 * (1 + abs(w) + abs(T * d))
    if label == "q <= C":
        return q <= env_get("C") * (1 + 1e-9)
    if label.startswith("rho_1"):
        return env_get("rho_first") != env_get("rho_max") or abs(q) <= 1e-9
    if label.startswith("q <= lam"):
        import math
        cap = env_get("lanes") * env_get("v_free") * math.exp(-1 / env_get("a")) * env_get("rho_crit")
        return q <= cap * (1 + 1e-9)
    return True


def replay_prim(v, kind, eng, env, label, verbose=False):
    if eng == "numpy":
        out, exc = prims.run_numpy_float(v, env)
        if exc is not None:
            return None
    else:
        F, sargs = prims.casadi_function(v, eng)
        out = prims.run_casadi_float(F, sargs, env)
    q = out[0]
    get = lambda n: env.get(n, env.get(n + "[0]"))
    ok = _bounds_hold(kind, q, get, label)
    if verbose:
        print(f"{v.name} {eng}: q = {q!r} at {env}; claim '{label}' holds: {ok}")
    if ok:
        return None
    return {"key": f"bound:{v.name}:{eng}:{label}", "group": f"bound:{v.prim}", "what": f"{v.name} ({eng}): flow {q!r} violates '{label}' at {env}",
            "replay": {"property": PID, "kind": "prim", "variant": v.name, "okind": kind, "engine": eng, "env": env, "label": label}}


# ------------------------------------------------------------------------------- network level
def work_net(item):
    tj, style, seed, timeout_ms = item[:4]
    hist = item[4] if len(item) > 4 else "fresh"
    builder = netcheck.history_builders()[hist]
    runs.set_default_history(hist)
    topo = T_.Topo.from_json(tj)
    rng = random.Random(seed)
    acc = netcheck.Acc(f"{topo.name}[{hist}]")
    D = ref_metanet.admissible_domain(topo)
    for node, (o, kind) in topo.origins.items():
        (l,) = topo.out_links(node)
        D.append(R(f"rho_{l.name}[0]") <= R(f"rhomax_{l.name}"))
    prover = LcapProver(timeout_ms=timeout_ms, seed=seed)
    numeric = netcheck.casadi_numeric_for(topo)
    try:
        encs = netcheck.numpy_encodings(topo, style, None, D, builder=builder)
        for st in (() if hist == "same-names" else ("SX", "MX")):  # the CasADi encodings bind arguments by name
            e = netcheck.casadi_encoding(topo, st, numeric, more_out=True, builder=builder)
            e.extra["numeric"] = numeric
            encs.append(e)
    except (symx.UnsupportedOp, symx.Inconclusive) as e:
        acc.inconclusive(f"{topo.name}: {e}")
        return acc.done()
    T = R("T")
    for enc in encs:
        acc.d["encodings"] += 1
        if enc.exc is not None:
            acc.exec_violation(PID, topo, enc.name, style, f"raised {type(enc.exc).__name__}: {enc.exc}")
            continue
        if enc.name.startswith("numpy"):
            acc.d["paths"] += 1
        num = enc.extra.get("numeric")
        sub = lambda t: netcheck.apply_numeric(t, num)
        Dn = [sub(c) for c in D]
        for node, (o, kind) in topo.origins.items():
            if kind not in ("main", "ramp_in", "ramp_out", "simp_lim"):
                continue
            (l,) = topo.out_links(node)
            w, d = R(f"w_{o}"), R(f"d_{o}")
            wn = enc.outs[(o, "w")][0].t
            flows = [("recovered from w+", d - (wn - w) / T)]
            if enc.extra.get("flows") and f"q_o_{o}" in enc.extra["flows"]:
                flows.append(("reported q_o", enc.extra["flows"][f"q_o_{o}"][0].t))
            for fl, q in flows:
                if kind == "main":
                    vf, rc, a, lam = R(f"vfree_{l.name}"), R(f"rhocrit_{l.name}"), R(f"a_{l.name}"), R(f"lam_{l.name}")
                    cap = lam * (vf * uf_exp((-1 / a) * uf_pow(rc / rc, a))) * rc
                    cl = claims("main", q, d, w, T, cap=sub(cap))
                else:
                    cl = claims("ramp", q, d, w, T, R(f"C_{o}"), R(f"rho_{l.name}[0]"), sub(R(f"rhomax_{l.name}")))
                cl.append(("w+ >= 0", wn >= 0))
                for label, goal in cl:
                    def on_sat(model, label=label, o=o, enc=enc, num=num, kind=kind, l=l):
                        env = netcheck.model_env(topo, model, rng, num)
                        return replay_net(topo, style, enc.name, env, o, kind, l.name, label, num)

                    acc.query(prover, topo, enc.name, f"{o} ({kind}) {fl}: {label}", goal, Dn, enc.pc, on_sat)
    return acc.done(prover)


def replay_net(topo, style, encname, env, o, kind, lname, label, numeric, verbose=False):
    from checks import c02

    nxt, exc = c02.real_next(topo, encname, style, env, numeric)
    if exc is not None:
        return None
    envn = dict(env)
    if numeric:
        envn.update({k: float(v) for k, v in numeric.items()})
    wn = nxt[(o, "w")][0]
    q = envn[f"d_{o}"] - (wn - envn[f"w_{o}"]) / envn["T"]
    m = {"d": envn[f"d_{o}"], "w": envn[f"w_{o}"], "T": envn["T"], "C": envn.get(f"C_{o}"), "rho_first": envn[f"rho_{lname}[0]"],
         "rho_max": envn[f"rhomax_{lname}"], "lanes": envn[f"lam_{lname}"], "v_free": envn[f"vfree_{lname}"], "a": envn[f"a_{lname}"],
         "rho_crit": envn[f"rhocrit_{lname}"]}
    ok = (wn >= -1e-9 * (1 + abs(m["w"]) + abs(m["T"] * m["d"]))) if label == "w+ >= 0" else _bounds_hold("main" if kind == "main" else "ramp", q, m.get, label)
    if verbose:
        print(f"{topo.name} {encname}: origin {o}: w+ = {wn!r}, flow used = {q!r}; claim '{label}' holds: {ok}")
    if ok:
        return None
    return {"key": f"netbound:{topo.name}:{encname.split('#')[0]}:{o}:{label}", "group": f"netbound:{topo.name}:{o}",
            "what": f"{topo.describe()} | {encname}: origin {o} ({kind}) flow {q!r}, next queue {wn!r} violate '{label}'",
            "replay": {"property": PID, "kind": "net", "topo": topo.to_json(), "style": style, "encoding": encname, "env": env, "origin": o,
                       "okind": kind, "link": lname, "label": label, "numeric": numeric}}


def replay(rec):
    if rec["kind"] == "prim":
        V = {v.name: (k, v) for k, v in prim_variants()}
        k, v = V[rec["variant"]]
        return 1 if replay_prim(v, k, rec["engine"], rec["env"], rec["label"], True) else 0
    if rec["kind"] == "net":
        topo = T_.Topo.from_json(rec["topo"])
        return 1 if replay_net(topo, rec["style"], rec["encoding"], rec["env"], rec["origin"], rec["okind"], rec["link"], rec["label"], rec.get("numeric"), True) else 0
    if rec["kind"] == "exec" and "topo" in rec:
        return netcheck.replay_exec(rec)
    print(rec)
    return 1


def _work(item):
    return work_prim(item[1:]) if item[0] == "prim" else work_net(item[1:])


def main():
    args = harness.Args(PID)
    if args.replay:
        sys.exit(replay(harness.load_replay(args.replay)))
    t0 = time.time()
    timeout = 60000 if args.thorough else 20000
    items = [("prim", i, args.seed, timeout) for i in range(len(prim_variants()))]
    topos = [t for t in families.curated() if any(k in ("main", "ramp_in", "ramp_out", "simp_lim") for _, k in t.origins.values())]
    if args.thorough:
        topos += [t for t in families.E(3, 4) + families.random_topos(args.seed, 30) if any(k in ("main", "ramp_in", "ramp_out", "simp_lim") for _, k in t.origins.values())]
    for k, t in enumerate(topos):
        items.append(("net", t.to_json(), ("array", "scalar")[k % 2], args.seed + k, timeout))
        if t.name.startswith("k"):
            hs = ["decoy-links-replaced", "reads-interleaved", "decoy-attachments-replaced"]
            for h in (hs if args.thorough else [hs[k % 3]]) + ["same-names"]:
                items.append(("net", t.to_json(), ("array", "scalar")[(k + 1) % 2], args.seed + k, timeout, h))
    if args.only:
        items = [it for it in items if args.only in str(it[1])]
    results = harness.pmap(_work, items, args.serial)
    viol, inc, tot, levels, samples, st, extra = netcheck.summarize(results)
    cov = netcheck.base_coverage(
        tot, levels, samples, st, len(items),
        "program = origin-flow primitive variant (8) or topology with a limited origin; one query per (encoding [NumPy path | SX | MX], origin, "
        "flow [recovered from the queue update | reported q_o], claim [q>=0 | q<=d+w/T | q<=capacity | full segment -> q=0 | w+>=0])",
        {"bounds": {"primitive_variants": len(prim_variants()), "network_family": "K members with mainstream/metered/limited-simplified origins"
                    + (" + E(3,4) + R(seed,30)" if args.thorough else ""), "values": "all admissible reals incl. zeros, rho_1 in [0, rho_max], r in [0,1]"},
         "functions_encoded": ["engines.numpy.OriginsEngine.get_ramp_flow/get_simplifiedramp_flow/get_mainstream_flow/step_queue",
                               "engines.casadi.OriginsEngine.* (IR)", "MeteredOnRamp/SimplifiedMeteredOnRamp/MainstreamOrigin.get_flow/step_dynamics via Network.step"]})
    assumptions = ["mainstream capacity clause decided modulo the analytic lemma L-cap: y>0, 0<r<=1 -> r*(-ln(r)/y)^y <= exp(-y) "
                   "(maximum of rho*V(rho) at rho_crit; a calculus fact, derivation in DESIGN.md section 4)",
                   "exp/log/pow abstracted with true lemmas (exp>0, monotonicity, log sign, ...)",
                   "the unlimited simplified ramp is outside the statement", "exact real arithmetic"]
    harness.finish(args, "model_checking", cov, assumptions, viol, inc, t0)


if __name__ == "__main__":
    main()
