"""C07 -- every network accepted by validation can be stepped and compiled on every engine,
shapes are preserved and outputs are finite on the admissible domain (boundary zeros included).

 (a) execution: symbolic NumPy run (all paths, both input styles, positivity options), CasADi
     step (SX, MX) and to_function at compact 0/1/2 x more_out must not raise; the family's
     topologies are accepted by the real is_valid (checked here) -- an exception on a path is a
     violation, replayed on floats at a model of the path condition.
 (b) finiteness: reals have no NaN/inf, so every value carries a definedness condition
     (denominator != 0, log argument > 0, real-power base admissible, conjunctions through
     arithmetic and min/max, conditional through if_else_zero); z3 must prove
     domain AND path => defined(output) for every output component of every encoding.
 (c) shapes of next states equal shapes of states (read off the arrays / function signature).
A plain concrete run with the NumPy engine's own variables accompanies each topology."""
from __future__ import annotations

import math
import random
import sys
import time
import warnings

import numpy as np
import z3

from vlib import discharge, families, harness, layout, netcheck, numrun, ref_metanet, runs, symx, sx2smt, topo as T_, zeval

PID = "C07"


def boundary_envs(topo, rng):
    """concrete boundary points (exact zeros) -- used to replay and as a plain-execution companion."""
    out = []
    for mode in ("zero_speed", "empty_road", "zero_queue", "all_zero"):
        env = numrun.sample_env(topo, rng)
        for k in list(env):
            if mode in ("zero_speed", "all_zero") and (k.startswith("v_") or k.startswith("vctrl_")):
                env[k] = 0.0
            if mode in ("empty_road", "all_zero") and k.startswith("rho_"):
                env[k] = 0.0
            if mode in ("zero_queue", "all_zero") and (k.startswith("w_") or k.startswith("d_") or k.startswith("r_") or k.startswith("q_")):
                env[k] = 0.0
        out.append((mode, env))
    return out


def env_in_domain(D, env):
    try:
        return all(bool(zeval.evalf(c, env)) for c in D)
    except Exception:
        return False


def work_sweep(item):
    """every small graph the REAL is_valid accepts must step on both engines (the premise is taken from the code, not from the spec)."""
    import itertools
    import sym_metanet as M
    from sym_metanet.engines.numpy import Engine as NE
    from sym_metanet.engines.casadi import Engine as CE

    _, n, okind, dflag, selfloops = item
    out = {"item": f"sweep n={n} {okind} {dflag}", "n_queries": 0, "nontrivial": 0, "levels": {}, "samples": [], "violations": [], "inconclusive": [],
           "paths": 0, "encodings": 0, "validated": 0, "extra": {"sweep_graphs": 0, "sweep_accepted": 0}}
    pairs = [(u, v) for u in range(n) for v in range(n) if selfloops or u != v]
    for mask in range(1, 1 << len(pairs)):
        edges = [p for k, p in enumerate(pairs) if mask >> k & 1]
        out["extra"]["sweep_graphs"] += 1
        nodes = [M.Node(name=f"N{i}") for i in range(n)]
        net = M.Network(name="sweep")
        for nd in nodes:
            net.add_node(nd)
        for j, (u, v) in enumerate(edges):
            lk = M.LinkWithVsl(1 + j % 3, 2, 1.0, 180, 30, 100, 1.8, 0.5 + 0.25 * j, segments_with_vsl={0}, alpha=0.1, name=f"L{u}{v}") if j % 4 == 3 else \
                M.Link(1 + j % 3, 1 + j % 2, 1.0, 180, 30, 100, 1.8, 0.5 + 0.25 * j, name=f"L{u}{v}")
            net.add_link(nodes[u], lk, nodes[v])
        for i in range(n):
            if okind[i] == 1:
                net.add_origin(M.Origin(name=f"O{i}") if i % 2 == 0 else M.MainstreamOrigin(name=f"O{i}"), nodes[i])
            elif okind[i] == 2:
                net.add_origin(M.MeteredOnRamp(2000, name=f"O{i}") if i % 2 == 0 else M.SimplifiedMeteredOnRamp(2000, name=f"O{i}"), nodes[i])
            if dflag[i]:
                net.add_destination(M.Destination(name=f"D{i}") if i % 2 == 0 else M.CongestedDestination(name=f"D{i}"), nodes[i])
        try:
            ok, _ = net.is_valid()
        except Exception as e:  # noqa
            ok = False
        if not ok:
            continue
        out["extra"]["sweep_accepted"] += 1
        kw = dict(T=10 / 3600, tau=18 / 3600, eta=60, kappa=40, delta=0.0122, phi=1.5)
        for nm, eng in (("numpy", NE("rand")), ("SX", CE("SX"))):
            try:
                with np.errstate(all="ignore"):
                    net.step(engine=eng, **kw)
            except Exception as e:  # noqa
                edesc = [f"N{u}->N{v}" for u, v in edges]
                out["violations"].append({"key": f"sweep:{nm}:{edesc}:{okind}:{dflag}", "group": f"sweep:{type(e).__name__}",
                                          "what": f"validation accepts the network edges={edesc} origin kinds={okind} destinations={dflag} but stepping it with {nm} raises {type(e).__name__}: {str(e)[:150]}",
                                          "replay": {"property": PID, "kind": "sweep", "n": n, "edges": edges, "okind": list(okind), "dflag": list(dflag), "selfloops": selfloops}})
                break
    return out


def work(item):
    if item[0] == "sweep":
        return work_sweep(item)
    tj, style, bits, seed, timeout_ms, do_casadi = item[:6]
    hist = item[6] if len(item) > 6 else "fresh"
    runs.set_default_history(hist)  # every real step / compilation below runs on a network built through this history
    topo = T_.Topo.from_json(tj)
    flags = runs.flags_of(bits)
    rng = random.Random(seed)
    acc = netcheck.Acc(f"{topo.name}:{style}:{bits:06b}" + ("" if hist == "fresh" else f":{hist}"))
    D = ref_metanet.admissible_domain(topo)
    prover = discharge.Prover(timeout_ms=timeout_ms, seed=seed)
    ex = acc.d["extra"]
    ex.update({"finiteness_conditions": 0, "compilations": 0, "concrete_runs": 0})

    # the family member must be accepted by the real validation (premise of the property)
    try:
        built = T_.build(topo, numrun.float_params(topo, numrun.sample_env(topo, rng)))
        ok, msgs = built.net.is_valid(raises=False)
    except Exception as e:  # noqa
        acc.exec_violation(PID, topo, "is_valid", style, f"is_valid raised {type(e).__name__}: {e}", flags)
        return acc.done()
    if not ok:
        acc.inconclusive(f"{topo.name}: family member rejected by is_valid ({msgs[:1]}) -- premise not met")
        return acc.done()

    # (a)+(b)+(c) NumPy, symbolic
    try:
        paths = netcheck.numpy_encodings(topo, style, flags, D)
    except (symx.UnsupportedOp, symx.Inconclusive) as e:
        acc.inconclusive(f"{topo.name}: {type(e).__name__}: {e}")
        return acc.done()
    for p in paths:
        acc.d["encodings"] += 1
        acc.d["paths"] += 1
        if p.exc is not None:
            # replay at a model of the path condition
            st, m = prover.check_sat(list(D) + list(p.pc), want_model=True)
            env = netcheck.model_env(topo, prover._model(m, z3.And(*(list(D) + list(p.pc) or [z3.BoolVal(True)])), []) if m is not None else {}, rng)
            res, exc = numrun.numpy_float(topo, env, style, flags)
            if exc is not None:
                acc.exec_violation(PID, topo, p.name, style, f"step raised {type(exc).__name__}: {exc}", flags, {"env": env})
            else:
                acc.inconclusive(f"{topo.name} {p.name}: symbolic run raised {p.exc!r} but the float run at a model of the path does not")
            continue
        for kind, cond, pc, note in p.extra["obligations"]:
            ex["finiteness_conditions"] += 1
            acc.query(prover, topo, p.name, f"{note}", cond, D, pc, lambda model: None)
        for key, vals in p.outs.items():
            if vals is None:
                acc.exec_violation(PID, topo, p.name, style, f"element {key[0]} has no next state '{key[1]}' after the step", flags)
                continue
            sin, sout = p.extra["shapes"][key]
            if sin != sout:
                acc.exec_violation(PID, topo, p.name, style, f"next state {key[1]}_{key[0]} has shape {sout}, state has shape {sin}", flags)
            for i, s in enumerate(vals):
                if s.d is None:
                    continue
                ex["finiteness_conditions"] += 1

                def on_sat(model, key=key, i=i, p=p):
                    env = netcheck.model_env(topo, model, rng)
                    return replay_finite(topo, "numpy", style, flags, env, key, i)

                acc.query(prover, topo, p.name, f"finite({key[1]}_{key[0]}[{i}])", s.d, D, p.pc, on_sat)
    if acc.d["violations"]:
        return acc.done(prover)
    acc.d["validated"] += len(paths)

    # (a) CasADi: step + compile at every level; (b) finiteness of the level-0 IR incl. flows
    if do_casadi:
        numeric = netcheck.casadi_numeric_for(topo)
        Dn = [netcheck.apply_numeric(c, numeric) for c in D]
        for symtype in ("SX", "MX"):
            for compact in (0, 1, 2):
                for more_out in (False, True):
                    ex["compilations"] += 1
                    tag = f"casadi[{symtype}/c{compact}/{'mo' if more_out else 'no'}]"
                    try:
                        F, b2, P, declared = runs.cas_function(topo, symtype, numeric, compact, more_out, flags)
                    except Exception as e:  # noqa
                        acc.exec_violation(PID, topo, tag, style, f"step/to_function raised {type(e).__name__}: {str(e)[:300]}", flags,
                                           {"numeric": numeric, "compact": compact, "more_out": more_out})
                        continue
                    ins, outs = layout.expected(topo, b2, compact, list(declared), more_out)
                    exp_sizes = [len(s) for _, s in outs]
                    got_sizes = [F.size1_out(i) * F.size2_out(i) for i in range(F.n_out())]
                    if compact == 0 and got_sizes != exp_sizes:
                        acc.exec_violation(PID, topo, tag, style, f"result sizes {got_sizes} differ from state sizes {exp_sizes}", flags,
                                           {"numeric": numeric, "compact": compact, "more_out": more_out})
                        continue
                    if compact == 0 and more_out:
                        try:
                            named, info = sx2smt.translate(F, layout.binder(ins))
                        except (symx.UnsupportedOp, symx.Inconclusive) as e:
                            acc.inconclusive(f"{topo.name} {tag}: {e}")
                            continue
                        acc.d["encodings"] += 1
                        for nm, vals in named:
                            for i, s in enumerate(vals):
                                if s.d is None:
                                    continue
                                ex["finiteness_conditions"] += 1

                                def on_sat(model, nm=nm, i=i, symtype=symtype):
                                    env = netcheck.model_env(topo, model, rng, numeric)
                                    return replay_finite(topo, symtype, style, flags, env, nm, i, numeric)

                                acc.query(prover, topo, tag, f"finite({nm}[{i}])", s.d, Dn, (), on_sat)
    # elements that merely share a *name* (validation accepts them: duplicates are judged by object identity) must still compile
    if do_casadi and bits == 0:
        def samename(s):
            return {"L": "seg", "O": "od", "D": "od"}.get(s[0], s) if s not in topo.nodes else s
        for symtype in ("SX", "MX"):
            for compact in (0, 1, 2):
                ex["compilations"] += 1
                tag = f"casadi[{symtype}/c{compact}/same-names]"
                try:
                    F, b2, P, declared = runs.cas_function(topo, symtype, netcheck.casadi_numeric_for(topo), compact, True, flags, rename=samename)
                    ok2, _ = b2.net.is_valid()
                    ins, outs = layout.expected(topo, b2, compact, list(declared), True)
                    got_in = [F.size1_in(i) * F.size2_in(i) for i in range(F.n_in())]
                    if ok2 and (F.n_in() != len(ins) or got_in != [len(z) for _, z in ins]):
                        acc.exec_violation(PID, topo, tag, style, f"with equally named elements the function has argument sizes {got_in}, the network has {[len(z) for _, z in ins]}", flags,
                                           {"compact": compact, "more_out": True})
                except Exception as e:  # noqa
                    acc.exec_violation(PID, topo, tag, style, f"step/to_function raised {type(e).__name__} when distinct elements share a name: {str(e)[:200]}", flags,
                                       {"compact": compact, "more_out": True, "samename": True})
    # plain execution companions (stated as such): engine's own variables; boundary points
    if bits == 0 and style == "array":
        from sym_metanet.engines.numpy import Engine as NE

        for vt in ("rand", "empty", np.float64(0.5), 30):  # 30: an integer fill value gives integer-dtype variables
            ex["concrete_runs"] += 1
            try:
                P = numrun.float_params(topo, numrun.sample_env(topo, rng))
                b3 = T_.build(topo, P)
                with warnings.catch_warnings():
                    warnings.simplefilter("ignore")
                    with np.errstate(all="ignore"):
                        b3.net.step(engine=NE(vt), **T_.model_kwargs(topo, P))
                for el, ns in b3.net.next_states.items():
                    for k, v in ns.items():
                        if np.shape(v) != np.shape(el.states[k]):
                            acc.exec_violation(PID, topo, f"numpy-own-vars[{vt}]", style, f"shape of next {k}_{el.name} differs", flags)
            except Exception as e:  # noqa
                acc.exec_violation(PID, topo, f"numpy-own-vars[{vt}]", style, f"step with the engine's own variables raised {type(e).__name__}: {e}", flags)
        # integer-dtype user arrays holding whole numbers (plain execution: dtype is outside the symbolic model)
        envi = {k: (float(round(v)) if (k.startswith("rho_") or k.startswith("v_")) else v) for k, v in numrun.sample_env(topo, rng).items()}
        ex["concrete_runs"] += 1
        resi, exci = numrun.numpy_float(topo, envi, style, flags, int_states=True)
        resf, excf = numrun.numpy_float(topo, envi, style, flags)
        if exci is not None and excf is None:
            acc.exec_violation(PID, topo, "numpy[int-dtype arrays]", style, f"step with integer-dtype state arrays raised {type(exci).__name__}: {str(exci)[:160]}", flags, {"env": envi})
        elif exci is None and excf is None:
            for key in resf:
                if any(not numrun.close(x, y, 1e-9, 1e-9) for x, y in zip(resf[key], resi[key])):
                    acc.d["violations"].append({"key": f"intdtype:{topo.name}:{key}", "group": f"intdtype:{topo.name}",
                                                "what": f"{topo.describe()} | NumPy step with integer-dtype state arrays gives {key} = {resi[key]}, with the same whole numbers as float arrays {resf[key]}",
                                                "replay": {"property": PID, "kind": "exec", "topo": topo.to_json(), "style": style, "encoding": "numpy[int]", "msg": "int dtype differs", "flags": flags, "env": envi}})
                    break
        for mode, env in boundary_envs(topo, rng):
            if not env_in_domain(D, env):
                continue
            ex["concrete_runs"] += 1
            res, exc = numrun.numpy_float(topo, env, style, flags)
            if exc is not None:
                acc.exec_violation(PID, topo, f"numpy[{mode}]", style, f"step raised {type(exc).__name__}: {exc}", flags, {"env": env})
                continue
            for key, vals in res.items():
                for i, x in enumerate(vals or []):
                    if not math.isfinite(x):
                        acc.d["violations"].append(finite_violation(topo, "numpy", style, flags, env, key, i, x, None))
    return acc.done(prover)


def finite_violation(topo, eng, style, flags, env, key, i, x, numeric):
    lab = f"{key[1]}_{key[0]}[{i}]" if isinstance(key, (tuple, list)) else f"{key}[{i}]"
    return {"key": f"nonfinite:{eng}:{topo.name}:{lab}", "group": f"nonfinite:{topo.name}:{eng}",
            "what": f"{topo.describe()} | {eng} engine: output {lab} = {x!r} for finite admissible inputs (flags {flags})",
            "replay": {"property": PID, "kind": "nonfinite", "topo": topo.to_json(), "engine": eng, "style": style, "flags": flags,
                       "env": env, "target": [key, i], "numeric": numeric}}


def replay_finite(topo, eng, style, flags, env, key, i, numeric=None, verbose=False):
    if eng == "numpy":
        res, exc = numrun.numpy_float(topo, env, style, flags)
        if exc is not None:
            return None
        x = res[tuple(key)][i]
    else:
        try:
            F, b2, P, declared = runs.cas_function(topo, eng, numeric, 0, True, flags)
            ins, outs = layout.expected(topo, b2, 0, list(declared), True)
            args = [[(numeric[z] if numeric and z in numeric else env[z]) for z in zs] for _, zs in ins]
            x = dict(numrun.casadi_float(F, args))[key][i]
        except Exception:  # noqa
            return None
    if verbose:
        print(f"{eng}: output {key}[{i}] = {x!r}")
    if math.isfinite(x):
        return None
    return finite_violation(topo, eng, style, flags, env, key, i, x, numeric)


def replay(rec):
    if rec["kind"] == "sweep":
        r = work_sweep(("sweep", rec["n"], tuple(rec["okind"]), tuple(rec["dflag"]), rec["selfloops"]))
        want = sorted(map(list, rec["edges"]))
        hits = [v for v in r["violations"] if sorted(map(list, v["replay"]["edges"])) == want]
        print(hits[0]["what"] if hits else "steps fine")
        return 1 if hits else 0
    if rec["kind"] == "exec":
        topo = T_.Topo.from_json(rec["topo"])
        if rec.get("env") and rec["encoding"].startswith("numpy"):
            res, exc = numrun.numpy_float(topo, rec["env"], rec.get("style", "array"), rec.get("flags"))
            print("exception:", repr(exc))
            return 1 if exc is not None else 0
        return netcheck.replay_exec(rec)
    topo = T_.Topo.from_json(rec["topo"])
    key, i = rec["target"]
    v = replay_finite(topo, rec["engine"], rec["style"], rec["flags"], rec["env"], key, i, rec.get("numeric"), verbose=True)
    return 1 if v else 0


FLAGSETS_QUICK = [0, 0b111111, 0b000001, 0b001000]
FLAGSETS_FULL = [0, 0b111111] + [1 << i for i in range(6)]


def main():
    args = harness.Args(PID)
    if args.replay:
        sys.exit(replay(harness.load_replay(args.replay)))
    t0 = time.time()
    items = []
    timeout = 20000
    for k, t in enumerate(families.curated()):
        for j, bits in enumerate(FLAGSETS_FULL if args.thorough else FLAGSETS_QUICK):
            for style in (("array", "scalar") if bits == 0 or args.thorough else (("array", "scalar")[(k + j) % 2],)):
                items.append((t.to_json(), style, bits, args.seed + k, timeout, style == "array" or bits == 0))
    # accepted networks that were not built in one go: lookups read before the remaining links arrive in one bulk call, elements
    # replaced after a first step
    hs = ["reads-then-bulk-links", "decoy-links-replaced", "reads-then-bulk-links", "decoy-attachments-replaced", "reads-interleaved"]
    for k, t in enumerate(families.curated()):
        for h in (sorted(set(hs)) if args.thorough else [hs[k % len(hs)]]):
            items.append((t.to_json(), "array", 0, args.seed + k, timeout, True, h))
    if args.thorough:
        for k, t in enumerate(families.E(4, 4) + families.E(3, 4, maxN=5)[::3] + families.random_topos(args.seed, 40)):
            items.append((t.to_json(), ("array", "scalar")[k % 2], FLAGSETS_FULL[k % len(FLAGSETS_FULL)], args.seed + k, timeout, True))
    if args.only:
        items = [it for it in items if args.only in it[0]["name"]]
    import itertools
    if not args.only:
        for n in (1, 2, 3):
            for okind in itertools.product((0, 1, 2), repeat=n):
                for dflag in itertools.product((False, True), repeat=n):
                    items.append(("sweep", n, okind, dflag, n <= 2 or args.thorough))
    results = harness.pmap(work, items, args.serial, chunksize=2)
    viol, inc, tot, levels, samples, st, extra = netcheck.summarize(results)
    cov = netcheck.base_coverage(
        tot, levels, samples, st, len(items),
        "program = (topology, input style, positivity-option vector); per program: all NumPy-symbolic paths (exception / shape / one finiteness query "
        "per output component that has a definedness condition), 12 CasADi compilations (SX,MX x compact 0,1,2 x more_out) and finiteness queries on the "
        "level-0 IR incl. reported flows; non-trivial = query not closed syntactically",
        {"bounds": {"family": "K (20 curated) x {4 quick | 8 thorough option vectors} x input styles" + (" + E(4,4) + every 3rd of E(3,4) with up to 5 segments + R(seed,40)" if args.thorough else ""),
                    "domain": "parameters > 0, rho_max > rho_crit, 1+alpha > 0; states/controls/disturbances >= 0 INCLUDING exact zeros; the model's own 0/0 points excluded"},
         "finiteness_conditions": extra.get("finiteness_conditions", 0), "casadi_compilations": extra.get("compilations", 0),
         "plain_concrete_runs": extra.get("concrete_runs", 0),
         "acceptance_sweep": {"graphs_built": extra.get("sweep_graphs", 0), "accepted_by_is_valid_and_stepped": extra.get("sweep_accepted", 0),
                              "note": "all graphs with <= 3 nodes (self-loops for n <= 2; thorough: also n = 3) x attachment vectors; every graph the real is_valid accepts is stepped with NumPy and CasADi SX (plain execution)"},
         "functions_encoded": ["Network.is_valid (premise)", "Network.step", "all element get_*/step_dynamics", "engines.numpy primitives",
                               "engines.casadi Engine.to_function / _filter_vars / _gather_* / _add_flows_to_outputs (executed), level-0 IR (translated)"]})
    assumptions = ["overflow to +-inf for huge finite inputs is outside the claim (reals are unbounded)",
                   "min/max/fmin/fmax modelled as NaN-propagating (conservative: C fmin would drop a NaN operand)",
                   "x/0 counted as undefined even where IEEE would later map inf back to a finite value",
                   "concrete runs with the engine's own variables and at boundary points are plain execution, not solver-decided"]
    harness.finish(args, "model_checking", cov, assumptions, viol, inc, t0)


if __name__ == "__main__":
    main()
