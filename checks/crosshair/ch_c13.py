"""CrossHair harness for C13(a): engines.use(name) for a symbolic string name."""
import sym_metanet
from sym_metanet import engines
from sym_metanet.errors import EngineNotFoundError
from sym_metanet.engines.casadi import Engine as CE
from sym_metanet.engines.numpy import Engine as NE

_START = engines.use("numpy")


def use_contract(name: str) -> bool:
    """
    pre: len(name) <= 10
    post: __return__
    """
    start = NE()
    engines.use(start)
    try:
        e = engines.use(name)
    except EngineNotFoundError:
        return name not in ("casadi", "numpy") and engines.get_current_engine() is start and sym_metanet.engine is start
    if name == "casadi":
        ok = isinstance(e, CE)
    elif name == "numpy":
        ok = isinstance(e, NE)
    else:
        ok = False
    return ok and e is not start and engines.get_current_engine() is e and sym_metanet.engine is e


def use_reachability_twin(name: str) -> bool:
    """
    pre: len(name) <= 10
    post: __return__
    """
    # must be REFUTED: CrossHair has to find a name that is accepted
    try:
        engines.use(name)
    except EngineNotFoundError:
        return True
    return False
