"""CrossHair harness for C09(a): Network.add_path on a path described by a symbolic list of tags
(0 = Node, 1 = Link, 2 = some other object), with / without origin and destination.

post-conditions (checked by `crosshair check` over all paths within the length bound):
  * accepted  <=>  well-formed (odd length >= 3, node-link-node alternation)
  * a malformed path is refused with TypeError or ValueError
  * in every case every node of the graph is a Node, and after an accepted path the graph has
    exactly the edges described
The module pre-warms networkx (lazily exec-compiled argmap wrappers fail under tracing)."""
from typing import List

import sym_metanet as M

MAXLEN = 4

_pre = M.Network().add_path([M.Node(name="a"), M.Link(1, 1, 1, 1, 1, 1, 1, name="l"), M.Node(name="b")],
                            origin=M.Origin(name="o"), destination=M.Destination(name="d"))
_pre.is_valid()


def _mk(tags):
    objs = []
    for i, t in enumerate(tags):
        if t == 0:
            objs.append(M.Node(name=f"n{i}"))
        elif t == 1:
            objs.append(M.Link(1, 2, 1.0, 180, 30, 100, 1.8, name=f"l{i}"))
        else:
            objs.append(("junk", i))
    return objs


def _wellformed(tags):
    return len(tags) >= 3 and len(tags) % 2 == 1 and all(t == (i % 2) for i, t in enumerate(tags))


def add_path_contract(tags: List[int], with_origin: bool, with_destination: bool) -> bool:
    """
    pre: 1 <= len(tags) <= MAXLEN
    pre: all(0 <= t <= 2 for t in tags)
    post: __return__
    """
    objs = _mk(tags)
    net = M.Network(name="ch")
    o = M.MeteredOnRamp(2000, name="o") if with_origin else None
    d = M.CongestedDestination(name="d") if with_destination else None
    accepted = True
    try:
        net.add_path(objs, origin=o, destination=d)
    except (TypeError, ValueError):
        accepted = False
    ok = accepted == _wellformed(tags)
    ok = ok and all(isinstance(x, M.Node) for x in net.graph.nodes)
    if accepted and ok:
        edges = [(u, v, l) for u, v, l in net.links]
        want = [(objs[i - 2], objs[i], objs[i - 1]) for i in range(2, len(objs), 2)]
        ok = len(edges) == len(want) and all(any(u is a and v is b and l is c for (u, v, l) in edges) for (a, b, c) in want)
        ok = ok and list(net.graph.nodes) == [x for x in objs[::2]]
        ok = ok and (not with_origin or net.origins_by_node.get(objs[0]) is o) and (not with_destination or net.destinations_by_node.get(objs[-1]) is d)
    return ok


def add_path_reachability_twin(tags: List[int], with_origin: bool, with_destination: bool) -> bool:
    """
    pre: 1 <= len(tags) <= MAXLEN
    pre: all(0 <= t <= 2 for t in tags)
    post: __return__
    """
    # vacuity guard: CrossHair must find a well-formed accepted path (this post-condition must be REFUTED)
    objs = _mk(tags)
    net = M.Network(name="ch")
    try:
        net.add_path(objs)
    except (TypeError, ValueError):
        return True
    return False
