"""C01 -- one step equals the METANET equations on every valid network.

For each topology of the family: every next-state component produced by (a) the real NumPy
engine + element layer run on symbolic arrays (all paths), (b) the IR of the real CasADi
to_function result (SX, and MX lowered by expand()) must equal the oracle term of
vlib.ref_metanet for ALL reals in the admissible domain: z3 (qfnra-nlsat, DESIGN 2.4) must
answer unsat for `domain AND path AND impl != ref`.  A sat model is replayed on the real float
code before it is reported."""
from __future__ import annotations

import json
import random
import sys
import time

import z3

from vlib import discharge, families, harness, netcheck, numrun, ref_metanet, runs, symx, topo as T_, zeval

PID = "C01"


def value_violation(topo, enc, style, key, i, env, numeric, r):
    got, exc = netcheck.real_value(topo, enc.name, env, key, i, style, None, numeric)
    envn = dict(env)
    if numeric:
        envn.update({k: float(v) for k, v in numeric.items()})
    want = zeval.evalf(r, envn)
    if exc is not None or numrun.close(got, want, 1e-7, 1e-9):
        return None
    return {"key": f"value:{enc.name.split('#')[0]}:{topo.name}:{key[1]}_{key[0]}[{i}]", "group": f"value:{topo.name}",
            "what": f"{topo.describe()} | {enc.name} next {key[1]}_{key[0]}[{i}] = {got!r}, METANET equations give {want!r}",
            "replay": {"property": PID, "kind": "value", "topo": topo.to_json(), "style": style, "encoding": enc.name, "target": [key[0], key[1], i],
                       "env": env, "numeric": numeric, "impl": got, "ref": want}}


def work(item):
    tj, style, seed, timeout_ms, engines = item[:5]
    hist = item[5] if len(item) > 5 else "fresh"
    builder = netcheck.history_builders()[hist]
    runs.set_default_history(hist)
    topo = T_.Topo.from_json(tj)
    rng = random.Random(seed)
    acc = netcheck.Acc(topo.name if hist == "fresh" else f"{topo.name}[{hist}]")
    ref = ref_metanet.Ref(topo)
    D = ref_metanet.admissible_domain(topo)
    prover = discharge.Prover(timeout_ms=timeout_ms, seed=seed)
    if timeout_ms > 20000 and topo.name.startswith("k"):
        netcheck.start_recording()  # thorough tier, family K: keep the z3-unsat queries for the cvc5 cross-check
    encs = []
    try:
        if "numpy" in engines:
            encs += netcheck.numpy_encodings(topo, style, None, D, builder=builder)
        numeric = netcheck.casadi_numeric_for(topo)
        for st in ("SX", "MX"):
            if st in engines:
                e = netcheck.casadi_encoding(topo, st, numeric, builder=builder)
                e.extra["numeric"] = numeric
                encs.append(e)
    except (symx.UnsupportedOp, symx.Inconclusive) as e:
        acc.inconclusive(f"{topo.name}: {type(e).__name__}: {e}")
        return acc.done()
    for enc in encs:
        acc.d["encodings"] += 1
        if enc.exc is not None:
            acc.exec_violation(PID, topo, enc.name, style, f"raised {type(enc.exc).__name__}: {enc.exc}")
            continue
        if enc.name.startswith("numpy"):
            acc.d["paths"] += 1
        numeric = enc.extra.get("numeric")
        bad = netcheck.validate_encoding(topo, enc, rng, style, None, numeric)
        if bad:
            acc.inconclusive(f"{topo.name}: encoder validation failed: {bad[0]}")
            continue
        acc.d["validated"] += 1
        for key, vals in enc.outs.items():
            rterms = ref.next[key]
            if vals is None or len(vals) != len(rterms):
                acc.exec_violation(PID, topo, enc.name, style, f"next state {key} missing or of wrong size")
                continue
            for i, (s, r) in enumerate(zip(vals, rterms)):
                r = netcheck.apply_numeric(r, numeric)
                dom = list(D) + [netcheck.apply_numeric(c, numeric) for c in ref.extra_domain.get((key[0], key[1], i), [])]

                def on_sat(model, key=key, i=i, enc=enc, numeric=numeric, r=r):
                    return value_violation(topo, enc, style, key, i, netcheck.model_env(topo, model, rng, numeric), numeric, r)

                acc.query(prover, topo, enc.name, f"{key[1]}_{key[0]}[{i}] == METANET equations", s.t == r, dom, enc.pc, on_sat)
    netcheck.take_recorded(acc, 3)
    return acc.done(prover)


def replay(rec):
    topo = T_.Topo.from_json(rec["topo"])
    if rec["kind"] == "exec":
        print("replay: building and stepping", topo.describe(), "with", rec["encoding"])
        env = numrun.sample_env(topo, random.Random(0))
        res = None
        if rec["encoding"].startswith("numpy"):
            res, exc = numrun.numpy_float(topo, env, rec["style"])
        else:
            _, exc = netcheck.real_value(topo, rec["encoding"], env, None, 0)[0:2] if False else (None, None)
            try:
                runs.cas_function(topo, "SX" if "SX" in rec["encoding"] else "MX")
            except Exception as e:  # noqa
                exc = e
        print("exception:", repr(exc))
        if exc is None and rec["encoding"].startswith("numpy") and res is not None:
            missing = [f"{k[1]}_{k[0]}" for k, ts in ref_metanet.Ref(topo).next.items() if res.get(k) is None or len(res[k]) != len(ts)]
            print("next states missing or of wrong size after the step:", missing or "none")
            return 1 if missing else 0
        return 1 if exc is not None else 0
    key = (rec["target"][0], rec["target"][1])
    i = rec["target"][2]
    got, exc = netcheck.real_value(topo, rec["encoding"], rec["env"], key, i, rec["style"], None, rec.get("numeric"))
    ref = ref_metanet.Ref(topo)
    want = zeval.evalf(netcheck.apply_numeric(ref.next[key][i], rec.get("numeric")), rec["env"])
    print(f"real code: {got!r}   METANET equations: {want!r}   exc={exc!r}")
    return 0 if (exc is None and numrun.close(got, want, 1e-7, 1e-9)) else 1


def main():
    args = harness.Args(PID)
    if args.replay:
        sys.exit(replay(harness.load_replay(args.replay)))
    t0 = time.time()
    topos = families.curated()
    styles = ["array", "scalar"]
    timeout = 20000
    if args.thorough:
        topos = topos + families.E(4, 5) + families.E(3, 4, maxN=5) + families.random_topos(args.seed, 40)
        timeout = 60000
    items = []
    for k, t in enumerate(topos):
        if args.only and args.only not in t.name:
            continue
        if t.name.startswith("k"):
            for st in styles:
                items.append((t.to_json(), st, args.seed + k, timeout, ("numpy", "SX", "MX") if st == "array" else ("numpy",)))
        else:
            items.append((t.to_json(), styles[k % 2], args.seed + k, timeout, ("numpy", "SX", "MX")))
    if not args.only or args.only in families.long_link().name:
        items.append((families.long_link().to_json(), "array", args.seed, timeout, ("numpy", "SX", "MX")))
    hs = ["decoy-attachments-replaced", "reads-interleaved", "decoy-links-replaced"]
    for k, t in enumerate(families.curated()):
        if args.only and args.only not in t.name:
            continue
        # the same equations on networks that were read / stepped / had elements replaced before this step
        for h in (hs if args.thorough else [hs[k % 3]]):
            items.append((t.to_json(), styles[(k + 1) % 2], args.seed + k, timeout, ("numpy", "SX"), h))
        if args.thorough or k % 2 == 0:
            items.append((t.to_json(), styles[k % 2], args.seed + k, timeout, ("numpy",), "same-names"))
    results = harness.pmap(work, items, args.serial)
    viol, inc, tot, levels, samples, st_, extra_ = netcheck.summarize(results)
    tot["n_queries"] = tot["n_queries"]
    stats = type("S", (), {"solver_ms": st_["solver_s"] * 1000, "cong_queries": st_["congruence_queries"], "cong_merged": st_["congruence_merges"]})()
    cvc5_stats, cvc5_problems = netcheck.cvc5_crosscheck(results, 48, args.serial) if args.thorough else ({"queries": 0, "note": "thorough tier only"}, [])
    inc += cvc5_problems
    coverage = {
        "cvc5_agreement": cvc5_stats,
        "states": tot["n_queries"],
        "transitions": tot["encodings"],
        "traces_validated_against_impl": tot["validated"],
        "programs": len(items),
        "evaluations": tot["encodings"],
        "distinct_nontrivial": tot["nontrivial"],
        "obligations": tot["n_queries"],
        "discharged": levels.get("L0", 0) + levels.get("L1", 0) + levels.get("L2", 0) + levels.get("L3", 0),
        "rule": "one query per (topology, input style, encoding [NumPy-symbolic path | SX IR | MX IR], next-state component); "
                "non-trivial = not closed syntactically (ladder level > L0); states = queries, transitions = encodings "
                "(symbolic runs), each validated against float execution of the real code",
        "queries_by_result": levels,
        "numpy_paths": tot["paths"],
        "solver_s": round(stats.solver_ms / 1000, 2), "concretised_retries": extra_.get("concretised_retries", 0),
        "congruence_queries": stats.cong_queries,
        "congruence_merges": stats.cong_merged,
        "functions_encoded": ["Network.step", "Link.step_dynamics", "Link.get_flow", "LinkWithVsl._get_equilibrium_speed",
                              "Node.get_upstream_speed_and_flow", "Node.get_downstream_density", "Origin.*", "MainstreamOrigin.*",
                              "MeteredOnRamp.*", "SimplifiedMeteredOnRamp.*", "Destination.get_density", "CongestedDestination.get_density",
                              "engines.numpy.* primitives", "engines.casadi.* primitives via Engine.to_function(compact=0) IR"],
        "bounds": {"family": "K (20 curated)" + (" + E(4,5) [725 structures up to isomorphism] + E(3,4) with up to 5 segments + R(seed,40)" if args.thorough else ""),
                   "segments_per_link": "<= 3 (quick), <= 5 (thorough)", "parameters": "all symbolic, distinct per link/origin (lanes numeric on CasADi side when phi is given)"},
        "samples": samples[:12] or [{"note": "all queries closed syntactically"}],
        "exhaustive": False,
    }
    assumptions = [
        "exact real arithmetic (IEEE rounding/overflow outside the claim); uf_exp/uf_log/uf_pow abstracted with proven congruence + true lemmas",
        "L1 queries assume non-zero denominators; C07 proves the admissible domain implies them",
        "oracle abstains: mainstream origin compared only for v_lim/v_free >= 0.05 (code's documented guard); lane gain outside the lane-drop clause",
        "CasADi Function.expand() and SXFunction instruction semantics trusted, validated numerically each run",
    ]
    harness.finish(args, "model_checking", coverage, assumptions, viol, inc, t0)


if __name__ == "__main__":
    main()
