"""C10 -- each next state depends only on its own segment and its model neighbours.

Non-interference by self-composition.  For every output component o of every encoding of the
real step (NumPy-symbolic paths, SX IR, MX IR) and every scalar input or parameter i that the
METANET reference term of o does not mention (the allowed set = variables of the oracle term:
own segment, upstream segment / node inflow, downstream density, own speed limit, ramp / lane
drop for first/last segments, origin's own queue/demand/control and first segment):
     exists x, x' equal except at i with o(x) != o(x')      must be UNSAT.
Inputs that do not occur in the implementation term close by congruence (counted separately);
inputs that occur go to z3.  A sat model gives two concrete inputs differing in one coordinate,
replayed as a numeric perturbation of the real function.  Reachability twins (an allowed input
must be able to change the output: SAT expected) guard against a vacuous encoding."""
from __future__ import annotations

import random
import sys
import time

import z3

from vlib import discharge, families, harness, netcheck, numrun, ref_metanet, runs, symx, topo as T_, zeval

PID = "C10"
R = z3.Real


def work(item):
    tj, style, seed, timeout_ms, engines = item[:5]
    hist = item[5] if len(item) > 5 else "fresh"
    flags = runs.flags_of(item[6]) if len(item) > 6 and item[6] else None  # positivity options: clamps are per quantity, the allowed sets stay the same
    builder = netcheck.history_builders()[hist]
    runs.set_default_history(hist)
    topo = T_.Topo.from_json(tj)
    rng = random.Random(seed)
    acc = netcheck.Acc(topo.name)
    ex = acc.d["extra"]
    ex.update({"pairs": 0, "pairs_closed_by_congruence": 0, "pairs_to_solver": 0, "twins_sat": 0, "twins_total": 0})
    ref = ref_metanet.Ref(topo)
    D = ref_metanet.admissible_domain(topo)
    prover = discharge.Prover(timeout_ms=timeout_ms, seed=seed)
    numeric0 = netcheck.casadi_numeric_for(topo)
    try:
        encs = []
        if "numpy" in engines:
            encs += netcheck.numpy_encodings(topo, style, flags, D, builder=builder)
        for st in ("SX", "MX"):
            if st in engines:
                e = netcheck.casadi_encoding(topo, st, numeric0, flags, builder=builder)
                e.extra["numeric"] = numeric0
                encs.append(e)
    except (symx.UnsupportedOp, symx.Inconclusive) as e:
        acc.inconclusive(f"{topo.name}: {e}")
        return acc.done()
    all_inputs = runs.input_names(topo) + T_.param_names(topo)
    for enc in encs:
        acc.d["encodings"] += 1
        if enc.exc is not None:
            acc.exec_violation(PID, topo, enc.name, style, f"raised {type(enc.exc).__name__}: {enc.exc}", flags)
            continue
        if enc.name.startswith("numpy"):
            acc.d["paths"] += 1
        numeric = enc.extra.get("numeric")
        twin_budget = 3
        twin_sat = twin_tried = 0
        for key, vals in enc.outs.items():
            if vals is None:
                continue
            for i, s in enumerate(vals):
                allowed = set(discharge.free_vars(ref.next[key][i]))
                occurring = discharge.free_vars(s.t)
                pcvars = set()
                for c in enc.pc:
                    pcvars |= set(discharge.free_vars(c))
                for name in all_inputs:
                    if numeric and name in numeric:
                        continue
                    if name in allowed:
                        continue
                    ex["pairs"] += 1
                    if name not in occurring:
                        ex["pairs_closed_by_congruence"] += 1
                        continue
                    ex["pairs_to_solver"] += 1
                    prime = R(name + "'")
                    s2 = z3.substitute(s.t, (R(name), prime))
                    dom = list(D) + [z3.substitute(c, (R(name), prime)) for c in D if name in discharge.free_vars(c)]
                    pc2 = list(enc.pc) + [z3.substitute(c, (R(name), prime)) for c in enc.pc if name in pcvars]

                    def on_sat(model, key=key, i=i, name=name, enc=enc, numeric=numeric):
                        env = netcheck.model_env(topo, model, rng, numeric)
                        val2 = (model or {}).get(name + "'", env[name] + 1.0)
                        return replay_perturb(topo, style, enc.name, env, key, i, name, val2, numeric, flags=flags)

                    acc.query(prover, topo, enc.name, f"next {key[1]}_{key[0]}[{i}] independent of {name}", s.t == s2, dom, pc2, on_sat)
                # reachability twin: some allowed state input that occurs must be able to change the output
                if twin_budget > 0:
                    cand = [n for n in sorted(allowed) if n in occurring and (n.startswith("rho_") or n.startswith("v_"))]
                    if cand:
                        twin_budget -= 1
                        name = cand[(i + len(key[0])) % len(cand)]
                        prime = R(name + "'")
                        s2 = z3.substitute(s.t, (R(name), prime))
                        ex["twins_total"] += 1
                        st_, _ = prover.check_sat(list(D) + list(enc.pc) + [s.t != s2], timeout_ms=5000)
                        twin_tried += 1
                        if st_ == "sat":
                            ex["twins_sat"] += 1
                            twin_sat += 1
                        elif st_ == "unsat":
                            twin_budget += 1  # e.g. the first segment behind an ideal origin really is independent of its speed: try another one
        if twin_tried and not twin_sat:
            acc.inconclusive(f"{topo.name} {enc.name}: no reachability twin is satisfiable (encoding may be vacuous)")
    return acc.done(prover)


def replay_perturb(topo, style, encname, env, key, i, name, val2, numeric, verbose=False, flags=None):
    from checks import c02, c18

    env2 = dict(env)
    env2[name] = val2
    if env2[name] == env[name]:
        env2[name] = env[name] + 1.0
    if flags and any(flags.values()):
        ra, ea = c18.real_next_flags(topo, encname, style, env, numeric, flags)
        rb, eb = c18.real_next_flags(topo, encname, style, env2, numeric, flags)
    else:
        ra, ea = c02.real_next(topo, encname, style, env, numeric)
        rb, eb = c02.real_next(topo, encname, style, env2, numeric)
    if ea is not None or eb is not None:
        return None
    x, y = ra[tuple(key)][i], rb[tuple(key)][i]
    if verbose:
        print(f"{encname}: next {key[1]}_{key[0]}[{i}] = {x!r}; after changing only {name}: {env[name]!r} -> {env2[name]!r} it is {y!r}")
    if numrun.close(x, y, 1e-9, 1e-12):
        return None
    return {"key": f"dep:{topo.name}:{encname.split('#')[0]}:{key[1]}_{key[0]}[{i}]<-{name}", "group": f"dep:{topo.name}:{key[1]}_{key[0]}<-{name.split('[')[0]}",
            "what": f"{topo.describe()} | {encname}: next {key[1]}_{key[0]}[{i}] changes from {x!r} to {y!r} when only {name} changes ({env[name]!r} -> {env2[name]!r}); "
                    f"the model does not let {name} influence it",
            "replay": {"property": PID, "kind": "perturb", "topo": topo.to_json(), "style": style, "encoding": encname, "env": env, "target": [list(key), i],
                       "name": name, "val2": env2[name], "numeric": numeric, "flags": flags}}


def replay(rec):
    if rec["kind"] == "exec":
        return netcheck.replay_exec(rec)
    topo = T_.Topo.from_json(rec["topo"])
    key, i = rec["target"]
    return 1 if replay_perturb(topo, rec["style"], rec["encoding"], rec["env"], key, i, rec["name"], rec["val2"], rec.get("numeric"), True, rec.get("flags")) else 0


def main():
    args = harness.Args(PID)
    if args.replay:
        sys.exit(replay(harness.load_replay(args.replay)))
    t0 = time.time()
    topos = families.curated()
    timeout = 20000
    if args.thorough:
        topos = topos + families.E(4, 5) + families.E(3, 4, maxN=5)[::2] + families.random_topos(args.seed, 30)
        timeout = 60000
    items = [(t.to_json(), ("array", "scalar")[k % 2], args.seed + k, timeout, ("numpy", "SX", "MX")) for k, t in enumerate(topos)
             if not args.only or args.only in t.name]
    hs = ["decoy-attachments-replaced", "decoy-links-replaced", "reads-interleaved"]
    for k, t in enumerate(families.curated()):
        if args.only and args.only not in t.name:
            continue
        for h in (hs if args.thorough else [hs[k % 3]]):
            items.append((t.to_json(), ("array", "scalar")[(k + 1) % 2], args.seed + k, timeout, ("numpy", "SX"), h))
    # positivity options on (the compiled function then recovers its input symbols from clamped expressions) and a link with
    # more than ten segments (two-digit indices)
    for bits in (0b000011, 0b111111):
        if not args.only or args.only in families.long_link().name:
            items.append((families.long_link().to_json(), "array", args.seed, timeout, ("numpy", "SX", "MX"), "fresh", bits))
    optsets = (0b000011, 0b111111, 0b000101, 0b111000, 0b010010)
    for k, t in enumerate(families.curated()):
        if args.only and args.only not in t.name:
            continue
        for j in range(len(optsets) if args.thorough else 1):
            items.append((t.to_json(), ("array", "scalar")[(k + j) % 2], args.seed + k, timeout, ("numpy", "SX", "MX"), "fresh", optsets[(k + j) % len(optsets)]))
    results = harness.pmap(work, items, args.serial)
    viol, inc, tot, levels, samples, st, extra = netcheck.summarize(results)
    cov = netcheck.base_coverage(
        tot, levels, samples, st, len(items),
        "pair = (encoding, output component, input/parameter scalar not in the oracle's variable set); pairs whose input does not occur in the implementation "
        "term close by congruence, the others are decided by z3 (self-composition); plus reachability twins (allowed input must be able to change the output: sat expected)",
        {"bounds": {"family": "K (20 curated), also with positivity options on (1 option vector per topology quick / 5 thorough); a 12-segment link with options on" + (" + E(4,5) + every 2nd of E(3,4) with up to 5 segments + R(seed,30)" if args.thorough else ""), "values": "admissible domain for both copies"},
         "pairs": extra.get("pairs", 0), "pairs_closed_by_congruence": extra.get("pairs_closed_by_congruence", 0), "pairs_to_solver": extra.get("pairs_to_solver", 0),
         "vacuity_twins": {"sat": extra.get("twins_sat", 0), "total": extra.get("twins_total", 0)},
         "functions_encoded": ["Network.step and everything it calls (NumPy symbolic)", "Engine.to_function IR (SX, MX)"]})
    cov["states"] = max(1, extra.get("pairs", 0))
    cov["distinct_nontrivial"] = extra.get("pairs_to_solver", 0) + extra.get("twins_total", 0)
    cov["evaluations"] = max(1, extra.get("pairs", 0))
    assumptions = ["allowed sets are the variable sets of the reference-model terms (vlib.ref_metanet), a superset of the true dependencies",
                   "exact real arithmetic", "lanes numeric on the CasADi side when phi is given"]
    harness.finish(args, "model_checking", cov, assumptions, viol, inc, t0)


if __name__ == "__main__":
    main()
