"""C12 -- stepping is a pure, repeatable function of the supplied values.

Bounded histories on ONE set of network objects (numeric, exactly representable parameters so
that every engine can use them):  H = h_1 .. h_k  with
   h in { numpy(X, options p) | numpy(Y, p') | SX step | MX step | SX step + compile(c) | MX step + compile(c) }
where X, Y are caller-held symbolic arrays (NumPy subclass, immutable z3-term elements).
 (a) after every step the caller's arrays are element-identical to their snapshot (any in-place
     write through a view would replace an element), the supplied dictionaries hold the same
     objects, every element parameter is unchanged;
 (b) stepping from X again after the history yields next-state terms that z3 proves equal to
     those of the first step from X -- for all values of X at once.
The first and the last step of every session pass no engine: they run with the library-wide engine
the session selected once with `engines.use`; every operation in between passes its own engine
explicitly (NumPy instances with other fill values, CasADi SX/MX), so a step that replaces the
library-wide selection, or leaves anything behind in it, shows up in (b).
A float twin of (a)/(b) with real float arrays accompanies every history (plain execution)."""
from __future__ import annotations

import itertools
import random
import sys
import time

import numpy as np
import z3

from vlib import discharge, families, harness, netcheck, numrun, ref_metanet, runs, symx, topo as T_
from vlib.symx import S, SymArray

PID = "C12"
ALPHA = ["N(X,0)", "N(Y,63)", "N(Y,9)", "SX", "MX", "SX+F0", "MX+F2", "SX+F1", "N(X:=Y)", "N(Xpart)", "N(Ybad)", "N(roll)"]


def snapshot(X):
    snap = {}
    for k, v in X.items():
        if isinstance(v, np.ndarray):
            snap[k] = ("arr", v.shape, [e for e in v.view(np.ndarray).reshape(-1)] if v.dtype == object else v.copy())
        else:
            snap[k] = ("val", None, v)
    return snap


def unchanged(X, snap):
    bad = []
    for k, v in X.items():
        kind, shape, old = snap[k]
        if kind == "arr":
            if not isinstance(v, np.ndarray) or v.shape != shape:
                bad.append(k)
            elif v.dtype == object:
                if any(a is not b for a, b in zip(v.view(np.ndarray).reshape(-1), old)):
                    bad.append(k)
            elif not np.array_equal(v, old, equal_nan=True):
                bad.append(k)
        elif v is not old and v != old:
            bad.append(k)
    return bad


def params_snapshot(built):
    out = {}
    for name, l in built.links.items():
        out[name] = tuple(getattr(l, a) for a in ("N", "lam", "L", "rho_max", "rho_crit", "v_free", "a", "turnrate")) + \
                    ((tuple(l.vsl), l.alpha) if hasattr(l, "vsl") else ())
    for name, o in built.origins.items():
        out[name] = (getattr(o, "C", None), getattr(o, "flow_eq_type", None))
    return out


class Session:
    def __init__(self, topo, seed, sym=True):
        self.topo = topo
        self.seed = seed
        self.P = numrun.exact_params(topo, seed)
        self.built = T_.build(topo, self.P)
        self.sym = sym
        rng = random.Random(seed)
        if sym:
            self.X = runs.sym_inputs(topo, "array")
            self.Y = {k: (SymArray.of([S.var(e.t.decl().name().replace("[", "_y[") if "[" in e.t.decl().name() else e.t.decl().name() + "_y") for e in v]))
                      for k, v in self.X.items()}
        else:
            self.X = runs.float_inputs(topo, numrun.sample_env(topo, rng), "array")
            self.Y = runs.float_inputs(topo, numrun.sample_env(topo, rng), "array")
        self.p0 = params_snapshot(self.built)

    def overwrite_in_place(self, dst, src):
        """the caller re-uses its buffers: same array objects, new contents"""
        for k in dst:
            if isinstance(dst[k], np.ndarray):
                dst[k][...] = src[k]
            else:
                dst[k] = src[k]

    def numpy_step(self, vals, bits, engine=None, drop=(), default=False):
        """default=True: no engine is passed; the step runs with the engine the session selected with `engines.use`"""
        vals = {k: v for k, v in vals.items() if k[1] not in drop}
        ic = runs.init_conditions(self.built, vals)
        ic_snap = {el: dict(d) for el, d in ic.items()}
        snap = snapshot(vals)
        self.built.net.step(init_conditions=ic, engine=None if default else (engine or runs.numpy_engine()), **runs.flags_of(bits), **T_.model_kwargs(self.topo, self.P))
        problems = []
        bad = unchanged(vals, snap)
        if bad:
            problems.append(f"caller-held arrays modified by the step: {bad}")
        for el, d in ic.items():
            if set(d) != set(ic_snap[el]) or any(d[k] is not ic_snap[el][k] for k in d):
                problems.append(f"init_conditions[{el.name}] was modified")
        if set(ic) != set(ic_snap):
            problems.append("init_conditions dictionary changed")
        if params_snapshot(self.built) != self.p0:
            problems.append("element parameters changed")
        nxt = runs.collect_next(self.topo, self.built)
        return nxt, problems

    def casadi_step(self, symtype, compact):
        eng = runs.casadi_engine(symtype)
        kw = T_.model_kwargs(self.topo, self.P)
        self.built.net.step(engine=eng, **runs.NOFLAGS, **kw)
        if compact is not None:
            eng.to_function(self.built.net, compact=compact, more_out=True, **kw)
        return [] if params_snapshot(self.built) == self.p0 else ["element parameters changed by a CasADi step/compilation"]

    def do(self, op):
        if op == "N(X:=Y)":
            if not hasattr(self, "X0"):
                self.X0 = {k: (v.copy() if isinstance(v, np.ndarray) else v) for k, v in self.X.items()}
            self.overwrite_in_place(self.X, self.Y)
            nxt, problems = self.numpy_step(self.X, 0)
            return ("asY", nxt), problems
        if op == "restore":
            if hasattr(self, "X0"):
                self.overwrite_in_place(self.X, self.X0)
            return None, []
        if op == "N(roll)":
            # the roll-out idiom: the next step starts from the network's own next states (the elements' dictionaries
            # themselves are handed back for the links); expected: a step of a fresh network from those same values
            self.numpy_step(self.Y, 0)
            vals = {}
            ic = {}
            for key, v in self.Y.items():
                el = self.built.element(key[0])
                ns = el.next_states
                if ns and key[1] in ns:
                    vals[key] = ns[key[1]]
                else:
                    vals[key] = v
            for el_name in {k[0] for k in vals}:
                el = self.built.element(el_name)
                if el_name in self.built.links and not hasattr(el, "vsl"):
                    ic[el] = el.next_states  # exactly {"rho", "v"}: the element's own dictionary
                else:
                    ic[el] = {k[1]: v for k, v in vals.items() if k[0] == el_name}
            copies = {k: (v.copy() if isinstance(v, np.ndarray) else v) for k, v in vals.items()}
            self.built.net.step(init_conditions=ic, engine=runs.numpy_engine(), **runs.NOFLAGS, **T_.model_kwargs(self.topo, self.P))
            got = runs.collect_next(self.topo, self.built)
            s2 = Session(self.topo, self.seed, self.sym)
            ref, _ = s2.numpy_step(copies, 0)
            return ("roll", got, ref), []
        if op == "N(Ybad)":
            # a step that fails half-way: the LAST link gets a density vector of the wrong length
            last = self.topo.links[-1]
            bad = dict(self.Y)
            v = self.Y[(last.name, "rho")]
            bad[(last.name, "rho")] = np.concatenate([np.asarray(v), np.asarray(v)[:1]]) if not self.sym else SymArray.of(list(v.view(np.ndarray)) + [S.var("extra_bad")])
            try:
                self.numpy_step(bad, 0)
            except Exception:  # noqa  (expected)
                return None, []
            return None, []  # some topologies tolerate it (broadcast); nothing to assert here
        if op == "N(Xpart)":
            from sym_metanet.engines.numpy import Engine as NE
            # partial initial conditions: the speed limits of VSL links are left to the engine
            return self.numpy_step(self.X, 0, NE(np.float64(7.0)), drop=("v_ctrl",) if any(l.is_vsl for l in self.topo.links) else ())
        if op == "N(X,dflt)":
            return self.numpy_step(self.X, 0, default=True)
        if op.startswith("N("):
            vals = self.X if op[2] == "X" else self.Y
            bits = int(op[4:-1])
            return self.numpy_step(vals, bits)
        st, _, f = op.partition("+")
        return None, self.casadi_step(st, int(f[1]) if f else None)


def work(item):
    tj, hist, seed = item
    topo = T_.Topo.from_json(tj)
    acc = netcheck.Acc(f"{topo.name}:{'>'.join(hist)}")
    acc.d["extra"].update({"histories": 1, "float_twins": 0})
    prover = discharge.Prover(timeout_ms=20000, seed=seed)
    rec = {"property": PID, "topo": topo.to_json(), "history": list(hist), "seed": seed}

    def bad(what):
        acc.d["violations"].append({"key": f"c12:{topo.name}:{hist}:{what[:50]}", "group": what[:60], "what": f"{topo.describe()} | history {list(hist)}: {what}", "replay": rec})

    def session(sym):
        import sym_metanet
        # the user selects the library-wide engine once; the first and the last step rely on it (no engine passed), every
        # operation in between passes its own engine explicitly
        sym_metanet.engines.use(runs.numpy_engine())
        s = Session(topo, seed, sym)
        probs = []
        first, problems = s.do("N(X,dflt)")
        probs += problems
        asY = []
        rolls = []
        for op in hist:
            r, problems = s.do(op)
            probs += [f"after {op}: {p}" for p in problems]
            if isinstance(r, tuple) and r[0] == "asY":
                asY.append(r[1])
            if isinstance(r, tuple) and r[0] == "roll":
                rolls.append((r[1], r[2]))
        s.do("restore")
        again, problems = s.do("N(X,dflt)")
        probs += problems
        refY = None
        if asY:
            s2 = Session(topo, seed, sym)  # fresh network objects: reference step from Y
            refY, _ = s2.numpy_step(s2.Y, 0)
        return first, again, probs, asY, refY, rolls

    for sym in (True, False):
        try:
            prs = list(symx.explore(lambda: session(sym))) if sym else None
            if not sym:
                class _P:  # float twin: a single concrete run
                    exc, pc = None, []
                try:
                    _P.value = session(False)
                except Exception as e:  # noqa
                    _P.exc = e
                prs = [_P]
        except (symx.UnsupportedOp, symx.Inconclusive) as e:
            acc.inconclusive(f"{topo.name}: {e}")
            continue
        for pr in prs:
            if pr.exc is not None:
                bad(f"raised {type(pr.exc).__name__}: {str(pr.exc)[:200]}")
                continue
            first, again, problems, asY, refY, rolls = pr.value
            for got, ref_ in rolls:
                for key in ref_:
                    a, b = symx.leaves(got[key]), symx.leaves(ref_[key])
                    for i, (x, y) in enumerate(zip(a, b)):
                        if sym:
                            acc.query(prover, topo, "numpy-symbolic", f"roll-out step from the network's own next states: {key[1]}_{key[0]}[{i}] == step of a fresh network from those values", x.t == y.t, (), pr.pc,
                                      lambda m, key=key, i=i: {"key": f"c12:{topo.name}:{hist}:roll", "group": "roll-out differs",
                                                               "what": f"{topo.describe()} | history {list(hist)}: a step started from the network's own next states differs from the step of a fresh network from the same values ({key[1]}_{key[0]}[{i}])", "replay": rec})
                        elif not numrun.close(float(x.c if hasattr(x, "c") else x), float(y.c if hasattr(y, "c") else y), 1e-12, 1e-12):
                            bad(f"float twin: roll-out step differs from a fresh step from the same values ({key[1]}_{key[0]}[{i}])")
            for p in problems:
                bad(p)
            for got in asY:
                for key in refY:
                    a, b = symx.leaves(got[key]), symx.leaves(refY[key])
                    for i, (x, y) in enumerate(zip(a, b)):
                        if sym:
                            acc.query(prover, topo, "numpy-symbolic", f"re-used buffers with new contents: {key[1]}_{key[0]}[{i}] == step from those contents", x.t == y.t, (), pr.pc,
                                      lambda m, key=key, i=i: {"key": f"c12:{topo.name}:{hist}:buffers", "group": "stale after in-place overwrite",
                                                               "what": f"{topo.describe()} | history {list(hist)}: after the caller overwrote its arrays in place, the step does not use the new contents ({key[1]}_{key[0]}[{i}])", "replay": rec})
                        elif not numrun.close(float(x.c if hasattr(x, "c") else x), float(y.c if hasattr(y, "c") else y), 1e-12, 1e-12):
                            bad(f"float twin: after the caller overwrote its arrays in place the step does not use the new contents ({key[1]}_{key[0]}[{i}])")
            acc.d["encodings"] += 1
            if sym:
                acc.d["paths"] += 1
                for key in first:
                    a, b = symx.leaves(first[key]), symx.leaves(again[key])
                    if len(a) != len(b):
                        bad(f"{key}: result size changed")
                        continue
                    for i, (x, y) in enumerate(zip(a, b)):
                        acc.query(prover, topo, "numpy-symbolic", f"repeat after {list(hist)}: {key[1]}_{key[0]}[{i}]", x.t == y.t, (), pr.pc,
                                  lambda m, key=key, i=i: {"key": f"c12:{topo.name}:{hist}:repeat", "group": "not repeatable",
                                                           "what": f"{topo.describe()} | history {list(hist)}: stepping again from the same values gives a different {key[1]}_{key[0]}[{i}]", "replay": rec})
            else:
                acc.d["extra"]["float_twins"] += 1
                for key in first:
                    if not np.array_equal(np.asarray(first[key], dtype=float), np.asarray(again[key], dtype=float), equal_nan=True):
                        bad(f"float twin: stepping again from the same values gives different {key[1]}_{key[0]}")
    return acc.done(prover)


def replay(rec):
    topo = T_.Topo.from_json(rec["topo"])
    r = work((rec["topo"], tuple(rec["history"]), rec["seed"]))
    for v in r.get("violations", []):
        print(v["what"])
    return 1 if r.get("violations") else 0


def main():
    args = harness.Args(PID)
    if args.replay:
        sys.exit(replay(harness.load_replay(args.replay)))
    t0 = time.time()
    K = [t for t in families.curated() if not any(k == "main" for _, k in t.origins.values()) or True]
    L = 3 if args.thorough else 2
    hists = [h for n in range(1, L + 1) for h in itertools.product(ALPHA, repeat=n)]
    items = []
    for k, t in enumerate(K):
        if args.thorough and k < 6:
            mine = hists
        else:
            mine = [h for j, h in enumerate(hists) if (j + k) % (3 if not args.thorough else 9) == 0]
        for h in mine:
            items.append((t.to_json(), h, args.seed + k))
    if args.only:
        items = [it for it in items if args.only in it[0]["name"]]
    results = harness.pmap(work, items, args.serial, chunksize=4)
    viol, inc, tot, levels, samples, st, extra = netcheck.summarize(results)
    cov = netcheck.base_coverage(
        tot, levels, samples, st, len(items),
        "trace = one real history of steps/compilations with different values, engines and options on the same network objects, followed by a repeat of the first step; "
        "per trace: identity snapshot of caller-held arrays / dictionaries / parameters after every step, and one z3 equality per next-state component (repeat == first)",
        {"bounds": {"family": "K (20 curated)", "history_length": L, "alphabet": ALPHA, "histories_per_topology": "all" if args.thorough else "every 3rd (rotating)"},
         "histories": extra.get("histories", 0), "float_twins": extra.get("float_twins", 0),
         "functions_encoded": ["Network.step", "element init_vars / step", "NumPy engine primitives (in-place operations)", "CasADi step / to_function on the same objects"]})
    cov["traces_validated_against_impl"] = extra.get("histories", 0)
    cov["distinct_nontrivial"] = extra.get("histories", 0)
    cov["evaluations"] = max(1, extra.get("histories", 0) + extra.get("float_twins", 0))
    assumptions = ["parameters numeric and exactly representable so that NumPy and CasADi steps can share the network objects",
                   "symbolic elements are immutable objects: an in-place write is visible as a replaced element (identity comparison)",
                   "histories enumerated up to the bound; values symbolic"]
    harness.finish(args, "model_checking", cov, assumptions, viol, inc, t0)


if __name__ == "__main__":
    main()
