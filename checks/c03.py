"""C03 -- the compiled CasADi function computes the same step as the NumPy engine.

Translation validation per program (topology x compactness level x symbol type x parameter
mode): the source semantics is the symbolic run of the real NumPy engine + element layer, the
target is the IR of the function returned by the real Engine.to_function (MX lowered by
expand()).  Inputs are bound by the documented layout (vlib.layout); every next-state component
must be equal for ALL reals (z3 unsat of the negation, per NumPy path condition).  Hence also
SX == MX."""
from __future__ import annotations

import random
import sys
import time

import z3

from vlib import discharge, families, harness, layout, netcheck, numrun, ref_metanet, runs, symx, sx2smt, topo as T_, zeval

PID = "C03"


def numeric_params(topo, seed):
    """'num' mode: exactly representable values so that float constant folding is exact in the reals."""
    return numrun.exact_params(topo, seed)


LONG_FLAGS = 0b000011  # initial speed/density clamps (arguments recovered from clamped expressions)


def cas_terms(topo, symtype, numeric, compact, more_out, flags=None):
    F, built, P, declared = runs.cas_function(topo, symtype, numeric, compact, more_out, flags)
    ins, outs = layout.expected(topo, built, compact, list(declared), more_out)
    if F.n_in() != len(ins) or F.n_out() != len(outs):
        raise symx.Inconclusive(f"function has {F.n_in()} inputs / {F.n_out()} outputs, documented layout has {len(ins)} / {len(outs)}")
    named, info = sx2smt.translate(F, layout.binder(ins))
    for (nm, vals), (enm, slots) in zip(named, outs):
        if len(vals) != len(slots):
            raise symx.Inconclusive(f"output '{nm}' has {len(vals)} entries, documented layout has {len(slots)}")
    return F, ins, outs, named, info


def cas_numeric(F, ins, env, numeric):
    args = [[(numeric[z] if numeric and z in numeric else env[z]) for z in zs] for _, zs in ins]
    return numrun.casadi_float(F, args)


def work(item):
    tj, mode, compact, more_out, symtype, style, seed, timeout_ms = item
    topo = T_.Topo.from_json(tj)
    rng = random.Random(seed)
    tag = f"{symtype}/c{compact}/{'mo' if more_out else 'no'}/{mode}"
    acc = netcheck.Acc(f"{topo.name}:{tag}")
    numeric = numeric_params(topo, seed) if mode == "num" else netcheck.casadi_numeric_for(topo)
    D = [netcheck.apply_numeric(c, numeric) for c in ref_metanet.admissible_domain(topo)]
    D = [c for c in D if not z3.is_true(z3.simplify(c))]
    prover = discharge.Prover(timeout_ms=timeout_ms, seed=seed)
    flags = runs.flags_of(LONG_FLAGS) if topo.name.startswith("x01") else None
    try:
        paths = netcheck.numpy_encodings(topo, style, flags, D, numeric)
    except (symx.UnsupportedOp, symx.Inconclusive) as e:
        acc.inconclusive(f"{topo.name}: {type(e).__name__}: {e}")
        return acc.done()
    try:
        F, ins, outs, named, info = cas_terms(topo, symtype, numeric, compact, more_out, flags)
    except symx.Inconclusive as e:
        acc.exec_violation(PID, topo, f"casadi[{tag}]", style, f"layout: {e}", extra={"numeric": numeric, "compact": compact, "more_out": more_out})
        return acc.done()
    except symx.UnsupportedOp as e:
        acc.inconclusive(f"{topo.name}: {e}")
        return acc.done()
    except Exception as e:  # noqa
        acc.exec_violation(PID, topo, f"casadi[{tag}]", style, f"raised {type(e).__name__}: {e}", extra={"numeric": numeric, "compact": compact, "more_out": more_out})
        return acc.done()
    acc.d["encodings"] += 1
    # encoder validation of the CasADi translation at this level
    env = numrun.sample_env(topo, rng)
    real = cas_numeric(F, ins, env, numeric)
    envn = dict(env)
    if numeric:
        envn.update({k: float(v) for k, v in numeric.items()})
    for (nm, vals), (rn, rv) in zip(named, real):
        for i, s in enumerate(vals):
            if not numrun.close(zeval.evalf(s.t, envn), rv[i], 1e-9, 1e-9):
                acc.inconclusive(f"{topo.name} {tag}: encoder validation failed at {nm}[{i}]")
                return acc.done()
    acc.d["validated"] += 1
    # plain-execution companion: whole numbers in integer-dtype state arrays (NumPy) vs the compiled function at the same numbers
    envi = {k: (float(round(v)) if (k.startswith("rho_") or k.startswith("v_")) else v) for k, v in numrun.sample_env(topo, rng).items()}
    envin = dict(envi)
    if numeric:
        envin.update({k: float(v) for k, v in numeric.items()})
    ni, ei = numrun.numpy_float(topo, envin, style, int_states=True)
    if ei is None:
        ci = dict(cas_numeric(F, ins, envi, numeric))
        acc.d["extra"]["int_dtype_companions"] = acc.d["extra"].get("int_dtype_companions", 0) + 1
        done_ = False
        for (nm, vals), (enm, slots) in zip(named, outs):
            for k, slot in enumerate(slots):
                if slot[0] == "next" and not done_ and not numrun.close(ni[(slot[1], slot[2])][slot[3]], ci[nm][k], 1e-7, 1e-9):
                    done_ = True
                    acc.d["violations"].append({"key": f"intdtype:{topo.name}:{tag}", "group": f"intdtype:{topo.name}",
                                                "what": f"{topo.describe()} | NumPy step with integer-dtype state arrays gives {slot[2]}_{slot[1]}[{slot[3]}] = {ni[(slot[1], slot[2])][slot[3]]!r}, compiled {symtype} function {ci[nm][k]!r}",
                                                "replay": {"property": PID, "kind": "exec", "topo": topo.to_json(), "style": style, "encoding": "numpy[int]", "msg": "int dtype differs", "env": envi}})
    for p in paths:
        acc.d["encodings"] += 1
        acc.d["paths"] += 1
        if p.exc is not None:
            acc.exec_violation(PID, topo, p.name, style, f"raised {type(p.exc).__name__}: {p.exc}")
            continue
        for (nm, vals), (enm, slots) in zip(named, outs):
            for k, (s, slot) in enumerate(zip(vals, slots)):
                if slot[0] != "next":
                    continue
                _, el, st, i = slot
                nv = p.outs.get((el, st))
                if nv is None or i >= len(nv):
                    acc.exec_violation(PID, topo, p.name, style, f"NumPy step produced no next state {st}_{el}[{i}]")
                    continue

                def on_sat(model, el=el, st=st, i=i, nm=nm, k=k):
                    e2 = netcheck.model_env(topo, model, rng, numeric)
                    return replay_point(topo, style, symtype, mode, compact, more_out, numeric, e2, el, st, i, nm, k)

                acc.query(prover, topo, f"casadi[{tag}] vs {p.name}", f"{nm}[{k}] == numpy {st}_{el}[{i}]",
                          s.t == nv[i].t, D, p.pc, on_sat)
    acc.d["extra"]["ir_instructions"] = info["n_instructions"]
    return acc.done(prover)


def replay_point(topo, style, symtype, mode, compact, more_out, numeric, env, el, st, i, nm, k, verbose=False):
    flags = runs.flags_of(LONG_FLAGS) if topo.name.startswith("x01") else None
    envn = dict(env)
    if numeric:
        envn.update({kk: float(v) for kk, v in numeric.items()})
    nres, exc = numrun.numpy_float(topo, envn, style, flags)
    if exc is not None:
        return None
    try:
        F, ins, outs, named, info = cas_terms(topo, symtype, numeric, compact, more_out, flags)
        cres = dict(cas_numeric(F, ins, env, numeric))
    except Exception:  # noqa
        return None
    a, b = nres[(el, st)][i], cres[nm][k]
    if verbose:
        print(f"NumPy engine {st}_{el}[{i}] = {a!r}; CasADi function {nm}[{k}] = {b!r}")
    if numrun.close(a, b, 1e-7, 1e-9):
        return None
    return {"key": f"differ:{symtype}:c{compact}:{mode}:{topo.name}:{st}_{el}[{i}]", "group": f"differ:{topo.name}",
            "what": f"{topo.describe()} | CasADi {symtype} function (compact={compact}, {mode} parameters) {nm}[{k}] = {b!r} but NumPy engine {st}_{el}[{i}] = {a!r}",
            "replay": {"property": PID, "kind": "differ", "topo": topo.to_json(), "style": style, "symtype": symtype, "mode": mode,
                       "compact": compact, "more_out": more_out, "numeric": numeric, "env": env, "target": [el, st, i, nm, k]}}


def replay(rec):
    if rec["kind"] == "exec":
        return netcheck.replay_exec(rec)
    topo = T_.Topo.from_json(rec["topo"])
    el, st, i, nm, k = rec["target"]
    v = replay_point(topo, rec["style"], rec["symtype"], rec["mode"], rec["compact"], rec["more_out"], rec["numeric"], rec["env"],
                     el, st, i, nm, k, verbose=True)
    print("engines differ" if v else "engines agree")
    return 1 if v else 0


def has_main(t):
    return any(k == "main" for _, k in t.origins.values())


def main():
    args = harness.Args(PID)
    if args.replay:
        sys.exit(replay(harness.load_replay(args.replay)))
    t0 = time.time()
    K = families.curated()
    items = []
    timeout = 20000
    cfgs_quick = [("sym", 0, False), ("sym", 2, True), ("num", 1, False)]
    cfgs_full = [(m, c, mo) for m in ("sym", "num") for c in (0, 1, 2) for mo in (False, True)]
    for k, t in enumerate(K):
        for j, (mode, compact, mo) in enumerate(cfgs_full if args.thorough else cfgs_quick):
            if mode == "num" and has_main(t):
                continue  # folded V_crit is a transcendental float constant: mainstream origins only in sym mode
            for sym in ("SX", "MX"):
                items.append((t.to_json(), mode, compact, mo, sym, ("array", "scalar")[(k + j) % 2], args.seed + k, timeout))
    if args.thorough:
        timeout = 60000
        extra = families.E(4, 5) + families.E(3, 4, maxN=5) + families.random_topos(args.seed, 30)
        for k, t in enumerate(extra):
            mode, compact, mo = cfgs_full[k % len(cfgs_full)]
            if mode == "num" and has_main(t):
                mode = "sym"
            items.append((t.to_json(), mode, compact, mo, ("SX", "MX")[k % 2], ("array", "scalar")[k % 2], args.seed + k, timeout))
    for sym in ("SX", "MX"):
        for compact in (0, 2):
            items.append((families.long_link().to_json(), "sym", compact, False, sym, "array", args.seed, timeout))
    if args.only:
        items = [it for it in items if args.only in it[0]["name"]]
    results = harness.pmap(work, items, args.serial)
    viol, inc, tot, levels, samples, st, extra = netcheck.summarize(results)
    cov = netcheck.base_coverage(
        tot, levels, samples, st, len(items),
        "program = (topology, parameter mode sym|num, compactness level, more_out, SX|MX); one query per (program, NumPy path, next-state component): "
        "IR term == NumPy-symbolic term; non-trivial = not closed syntactically",
        {"bounds": {"family": "K (20 curated) x {3 quick | 12 thorough configurations} x {SX, MX}" + (" + E(4,5) + E(3,4) with up to 5 segments + R(seed,30), rotating configurations" if args.thorough else ""),
                    "values": "all reals with non-zero denominators (L1), admissible domain as fallback (L2/L3)"},
         "ir_instructions_translated": extra.get("ir_instructions", 0),
         "functions_encoded": ["Engine.to_function (SX; MX via Function.expand()) IR", "Network.step + NumPy engine (symbolic run)"]})
    assumptions = ["exact real arithmetic; rounding differences between the engines outside (replay tolerance 1e-7 relative)",
                   "num mode uses exactly representable (dyadic) parameter values and a=2 so that float constant folding is exact; "
                   "mainstream origins only in sym mode (their folded V_crit is a transcendental float)",
                   "lanes numeric on the CasADi side when phi is given (the code evaluates lanes_drop == 0 in Python)",
                   "inputs bound by the documented layout (C04 checks the layout itself)"]
    harness.finish(args, "translation_validation", cov, assumptions, viol, inc, t0)


if __name__ == "__main__":
    main()
