"""Common check scaffolding: CLI, tiers, parallel map, evidence, replays, known findings,
exit codes (0 = held on everything explored, 1 = VIOLATION, 2 = INCONCLUSIVE/harness error)."""
from __future__ import annotations

import argparse
import hashlib
import json
import multiprocessing as mp
import os
import sys
import time
import traceback

ROOT = os.path.dirname(os.path.dirname(os.path.abspath(__file__)))
EVID = os.environ.get("VERIF_EVID_DIR") or os.path.join(ROOT, "evidence")  # override only for self-tests against seeded changes
REPLAYS = os.environ.get("VERIF_REPLAY_DIR") or os.path.join(ROOT, "replays")
KNOWN = os.path.join(ROOT, "known_findings.json")
NPROC = int(os.environ.get("VERIF_NPROC", "0")) or min(16, os.cpu_count() or 4)


class Args:
    def __init__(self, pid):
        ap = argparse.ArgumentParser()
        ap.add_argument("--tier", default=os.environ.get("VERIF_TIER", "quick"))
        ap.add_argument("--replay", default=None)
        ap.add_argument("--only", default=None, help="restrict to items whose name contains this")
        ap.add_argument("--serial", action="store_true")
        a = ap.parse_args()
        self.tier = a.tier if a.tier in ("quick", "thorough") else "quick"
        self.replay = a.replay
        self.only = a.only
        self.serial = a.serial
        try:
            self.seed = int(os.environ.get("VERIF_SEED", "0"))
        except ValueError:
            self.seed = 0
        self.pid = pid

    @property
    def thorough(self):
        return self.tier == "thorough"


def _call(job):
    fn, item = job
    t0 = time.time()
    try:
        r = fn(item)
    except BaseException as e:  # a worker must never take the pool down
        r = {"item": str(getattr(item, "name", item))[:200], "error": f"{type(e).__name__}: {e}",
             "trace": traceback.format_exc()[-3000:]}
    if isinstance(r, dict):
        r.setdefault("wall_s", round(time.time() - t0, 3))
    return r


ITEM_TIMEOUT = int(os.environ.get("VERIF_ITEM_TIMEOUT", "0"))


def _worker(conn):
    while True:
        try:
            job = conn.recv()
        except EOFError:
            return
        if job is None:
            return
        idx, fn, item = job
        conn.send((idx, _call((fn, item))))


def pmap(fn, items, serial=False, chunksize=1, item_timeout=None):
    """ordered parallel map over picklable items; fn must be a module-level function.
    Own small process pool: a work item that exceeds the wall-clock limit (a solver call that ignores its timeout)
    is killed, reported as an error result (=> the check ends INCONCLUSIVE, never silently), and its worker replaced."""
    items = list(items)
    if serial or NPROC == 1 or len(items) <= 1:
        return [_call((fn, it)) for it in items]
    limit = item_timeout or ITEM_TIMEOUT or (1800 if os.environ.get("VERIF_TIER") == "thorough" or "thorough" in sys.argv else 600)
    ctx = mp.get_context("fork")
    results = [None] * len(items)
    todo = list(range(len(items)))[::-1]
    workers = {}  # conn -> [process, idx or None, start time]

    def spawn():
        parent, child = ctx.Pipe()
        p = ctx.Process(target=_worker, args=(child,), daemon=True)
        p.start()
        child.close()
        workers[parent] = [p, None, 0.0]
        return parent

    def feed(conn):
        if todo:
            i = todo.pop()
            workers[conn][1], workers[conn][2] = i, time.time()
            conn.send((i, fn, items[i]))
        else:
            workers[conn][1] = None

    for _ in range(min(NPROC, len(items))):
        feed(spawn())
    done = 0
    from multiprocessing.connection import wait
    while done < len(items):
        ready = wait(list(workers), timeout=1.0)
        for conn in ready:
            try:
                idx, res = conn.recv()
            except (EOFError, OSError):
                p, idx, _ = workers.pop(conn)
                if idx is not None:
                    results[idx] = {"item": str(getattr(items[idx], "name", items[idx]))[:200], "error": "worker process died"}
                    done += 1
                if todo:
                    feed(spawn())
                continue
            results[idx] = res
            done += 1
            feed(conn)
        now = time.time()
        for conn in list(workers):
            p, idx, t0 = workers[conn]
            if idx is not None and now - t0 > limit:
                p.kill()
                workers.pop(conn)
                results[idx] = {"item": str(getattr(items[idx], "name", items[idx]))[:200], "error": f"work item exceeded {limit} s wall clock and was killed"}
                done += 1
                if todo:
                    feed(spawn())
    for conn, (p, idx, _) in workers.items():
        try:
            conn.send(None)
        except Exception:  # noqa
            pass
    for conn, (p, idx, _) in workers.items():
        p.join(timeout=2)
        if p.is_alive():
            p.kill()
    return results


def known_findings(pid):
    if not os.path.exists(KNOWN):
        return []
    with open(KNOWN) as f:
        data = json.load(f)
    return [e for e in data.get("findings", []) if e.get("property") == pid and e.get("status") == "open"]


def match_known(pid, key):
    for e in known_findings(pid):
        if e.get("key") == key:
            return e
    return None


def write_replay(pid, rec):
    os.makedirs(os.path.join(REPLAYS, pid), exist_ok=True)
    blob = json.dumps(rec, sort_keys=True, indent=1)
    h = hashlib.sha1(blob.encode()).hexdigest()[:12]
    path = os.path.join(REPLAYS, pid, f"{h}.json")
    with open(path, "w") as f:
        f.write(blob)
    return path


def finish(args: Args, level, coverage, assumptions, violations, inconclusive, t0, extra=None):
    """violations: list of {key, what, replay(dict)}; inconclusive: list of str.
    Writes evidence, prints VIOLATION / KNOWN-FINDING lines, exits."""
    os.makedirs(EVID, exist_ok=True)
    real = []
    known_lines = []
    seen_known = set()
    for v in violations:
        k = match_known(args.pid, v.get("key"))
        if k is not None:
            if v["key"] not in seen_known:
                seen_known.add(v["key"])
                known_lines.append(f"KNOWN-FINDING: property={args.pid} {k.get('what', v.get('what', ''))}")
            continue
        real.append(v)
    ev = {
        "property_id": args.pid,
        "tier": args.tier,
        "seed": args.seed,
        "level": level,
        "coverage": coverage,
        "assumptions": assumptions,
        "wall_s": round(time.time() - t0, 2),
        "violations": len(real),
    }
    if inconclusive:
        ev["coverage"]["inconclusive"] = inconclusive[:20]
        ev["coverage"]["inconclusive_count"] = len(inconclusive)
    if known_lines:
        ev["coverage"]["known_findings_hit"] = sorted(seen_known)
    if extra:
        ev.update(extra)
    with open(os.path.join(EVID, f"{args.pid}.json"), "w") as f:
        json.dump(ev, f, indent=1, sort_keys=True, default=str)
    for l in known_lines:
        print(l)
    seen = set()
    groups = set()
    for v in real:
        g = v.get("group", v.get("key"))
        if g in groups or len(groups) >= 8:
            continue
        groups.add(g)
        path = write_replay(args.pid, v.get("replay", {"what": v.get("what")}))
        if path in seen:
            continue
        seen.add(path)
        print(f"# {v.get('what', '')}"[:400])
        print(f"VIOLATION property={args.pid} replay={path}")
    if real:
        sys.exit(1)
    if inconclusive:
        for m in inconclusive[:10]:
            print(f"INCONCLUSIVE property={args.pid} {m}"[:500])
        sys.exit(2)
    print(f"OK property={args.pid} tier={args.tier} wall={ev['wall_s']}s")
    sys.exit(0)


def load_replay(path):
    with open(path) as f:
        rec = json.load(f)
    if isinstance(rec, dict) and rec.get("hist"):
        from . import runs

        runs.set_default_history(rec["hist"])  # the recorded point is replayed on a network with the recorded construction history
    return rec
