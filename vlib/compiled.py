"""Compile a topology with the real CasADi engine and translate the function's IR, mapping
arguments/results through the documented layout (vlib.layout)."""
from __future__ import annotations

from . import layout, numrun, runs, sx2smt, symx


class Compiled:
    def __init__(self, F, built, declared, ins, outs, named, info, numeric):
        self.F, self.built, self.declared, self.ins, self.outs = F, built, declared, ins, outs
        self.named, self.info, self.numeric = named, info, numeric
        self.slot = {}
        for (nm, vals), (enm, slots) in zip(named, outs):
            for s, sl in zip(vals, slots):
                self.slot[sl] = s

    def names_in(self):
        return [self.F.name_in(i) for i in range(self.F.n_in())]

    def names_out(self):
        return [self.F.name_out(i) for i in range(self.F.n_out())]

    def numeric_call(self, env):
        args = [[(self.numeric[z] if self.numeric and z in self.numeric else env[z]) for z in zs] for _, zs in self.ins]
        res = numrun.casadi_float(self.F, args)
        out = {}
        for (nm, vals), (_, slots) in zip(res, self.outs):
            for v, sl in zip(vals, slots):
                out[sl] = v
        return out


class LayoutMismatch(Exception):
    pass


def compile_terms(topo, symtype, numeric=None, compact=0, more_out=False, flags=None, declare=None, order=None, check_names=False, dual_route=False, builder=None, same_display_names=False, rename=None):
    F, built, P, declared = runs.cas_function(topo, symtype, numeric, compact, more_out, flags, order, declare, dual_route, builder=builder,
                                              same_display_names=same_display_names, rename=rename)
    ins, outs = layout.expected(topo, built, compact, list(declared), more_out)
    got_in = [(F.name_in(i), F.size1_in(i) * F.size2_in(i)) for i in range(F.n_in())]
    got_out = [(F.name_out(i), F.size1_out(i) * F.size2_out(i)) for i in range(F.n_out())]
    exp_in = [(n, len(z)) for n, z in ins]
    exp_out = [(n, len(z)) for n, z in outs]
    if [s for _, s in got_in] != [s for _, s in exp_in] or [s for _, s in got_out] != [s for _, s in exp_out] or \
            (check_names and (got_in != exp_in or got_out != exp_out)):
        raise LayoutMismatch(f"arguments {got_in} results {got_out}; documented layout: arguments {exp_in} results {exp_out}")
    named, info = sx2smt.translate(F, layout.binder(ins))
    return Compiled(F, built, declared, ins, outs, named, info, numeric)
