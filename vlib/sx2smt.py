"""sx2smt -- translate the instruction list (compiler IR) of a real casadi SXFunction into
z3 terms.  MX functions are lowered first with CasADi's own Function.expand().

Each work-vector slot carries (term, concrete Fraction|None, definedness Bool|None) -- the same
S objects the NumPy-symbolic run produces -- so both encodings live in one term language.
Comparison results are reals 0/1 as in CasADi; a parallel Bool form is kept to avoid
If(If(c,1,0)!=0,..) noise.
"""
from __future__ import annotations

from fractions import Fraction

import casadi as cs
import z3

from . import symx
from .symx import S, UnsupportedOp, _add, _sub, _mul, _div, _pow, _exp, _log, _min, _max, _conj

ONE = Fraction(1)
ZERO = Fraction(0)


def _b2s(b, d=None):
    return S(z3.If(b, z3.RealVal(1), z3.RealVal(0)), d=d)


def _truth(x: S, boolform):
    """Bool meaning of a CasADi value used as condition (non-zero = true)."""
    if boolform is not None:
        return boolform
    if x.c is not None:
        return z3.BoolVal(x.c != 0)
    return x.t != 0


def translate(F: cs.Function, bind):
    """bind(i_in, name, k, n) -> S for nonzero k of input i_in.
    Returns (outputs: list[(name, list[S])], info dict)."""
    if F.class_name() != "SXFunction":
        F = F.expand("F", {"allow_duplicate_io_names": True})
    n_ins = F.n_instructions()
    w = [None] * F.sz_w()
    wb = [None] * F.sz_w()  # boolean forms
    outs = []
    for i in range(F.n_out()):
        r, c = F.size_out(i)
        outs.append([S(c=ZERO) for _ in range(r * c)])
    out_rows = []
    for i in range(F.n_out()):
        sp = F.sparsity_out(i)
        r, c = F.size_out(i)
        if c != 1 and r != 1:
            raise UnsupportedOp("matrix output")
        rows = sp.row() if c == 1 else [sp.get_col()[k] for k in range(sp.nnz())]
        out_rows.append(list(rows))
    in_rows = []
    for i in range(F.n_in()):
        sp = F.sparsity_in(i)
        r, c = F.size_in(i)
        if c not in (0, 1) and r != 1:
            raise UnsupportedOp("matrix input")
        in_rows.append(list(sp.row()) if c == 1 else list(range(sp.nnz())))
    opcount = {}
    nanconst = set()  # work slots currently holding a NaN literal
    for k in range(n_ins):
        op = F.instruction_id(k)
        opcount[op] = opcount.get(op, 0) + 1
        ii = F.instruction_input(k)
        oo = F.instruction_output(k)
        if op == cs.OP_CONST:
            cval = F.instruction_constant(k)
            if cval != cval or cval in (float("inf"), float("-inf")):
                # a NaN/inf literal baked into the function (e.g. math.exp applied to a symbol): an undefined value.
                # C fmin/fmax ignore a NaN operand -- handled below; everything else propagates it.
                w[oo[0]] = S(z3.RealVal(0), d=z3.BoolVal(False))
                nanconst.add(oo[0])
            else:
                w[oo[0]] = S(c=symx.frac_of(cval))
                nanconst.discard(oo[0])
            wb[oo[0]] = None
            continue
        if op == cs.OP_INPUT:
            i_in, nz = ii
            w[oo[0]] = bind(i_in, F.name_in(i_in), in_rows[i_in][nz], F.size1_in(i_in) * F.size2_in(i_in))
            wb[oo[0]] = None
            continue
        if op == cs.OP_OUTPUT:
            i_out, nz = oo
            outs[i_out][out_rows[i_out][nz]] = w[ii[0]]
            continue
        if op == cs.OP_PARAMETER:
            raise UnsupportedOp("free parameter in SXFunction")
        a = w[ii[0]]
        ab = wb[ii[0]]
        b = w[ii[1]] if len(ii) > 1 else None
        bb = wb[ii[1]] if len(ii) > 1 else None
        res_b = None
        if op == cs.OP_ASSIGN:
            res, res_b = a, ab
        elif op == cs.OP_ADD:
            res = _add(a, b)
        elif op == cs.OP_SUB:
            res = _sub(a, b)
        elif op == cs.OP_MUL:
            res = _mul(a, b)
        elif op == cs.OP_DIV:
            res = _div(a, b)
        elif op == cs.OP_NEG:
            res = -a
        elif op == cs.OP_EXP:
            res = _exp(a)
        elif op == cs.OP_LOG:
            res = _log(a)
        elif op in (cs.OP_POW, cs.OP_CONSTPOW):
            res = _pow(a, b)
        elif op == cs.OP_SQRT:
            res = _pow(a, S(c=Fraction(1, 2)))
        elif op == cs.OP_SQ:
            res = _mul(a, a)
        elif op == cs.OP_TWICE:
            res = _mul(S(c=Fraction(2)), a)
        elif op == cs.OP_INV:
            res = _div(S(c=ONE), a)
        elif op == cs.OP_FABS:
            res = abs(a)
        elif op == cs.OP_SIGN:
            res = S(z3.If(a.t > 0, z3.RealVal(1), z3.If(a.t < 0, z3.RealVal(-1), z3.RealVal(0))), d=a.d)
        elif op == cs.OP_COPYSIGN:
            absa = abs(a)
            res = S(z3.If(b.t >= 0, absa.t, -absa.t), d=_conj(a.d, b.d))
        elif op in (cs.OP_FMIN, cs.OP_FMAX) and (ii[0] in nanconst) != (ii[1] in nanconst):
            res = b if ii[0] in nanconst else a  # fmin(x, NaN) = x
        elif op == cs.OP_FMIN:
            res = _min(a, b)
        elif op == cs.OP_FMAX:
            res = _max(a, b)
        elif op in (cs.OP_LT, cs.OP_LE, cs.OP_EQ, cs.OP_NE):
            if a.c is not None and b.c is not None:
                v = {cs.OP_LT: a.c < b.c, cs.OP_LE: a.c <= b.c, cs.OP_EQ: a.c == b.c, cs.OP_NE: a.c != b.c}[op]
                res = S(c=ONE if v else ZERO)
            else:
                res_b = {cs.OP_LT: a.t < b.t, cs.OP_LE: a.t <= b.t, cs.OP_EQ: a.t == b.t, cs.OP_NE: a.t != b.t}[op]
                res = _b2s(res_b, _conj(a.d, b.d))
        elif op == cs.OP_NOT:
            res_b = z3.Not(_truth(a, ab))
            res = _b2s(res_b, a.d)
        elif op == cs.OP_AND:
            res_b = z3.And(_truth(a, ab), _truth(b, bb))
            res = _b2s(res_b, _conj(a.d, b.d))
        elif op == cs.OP_OR:
            res_b = z3.Or(_truth(a, ab), _truth(b, bb))
            res = _b2s(res_b, _conj(a.d, b.d))
        elif op == cs.OP_IF_ELSE_ZERO:
            cnd = z3.simplify(_truth(a, ab))
            if z3.is_true(cnd):
                res = S(b.t, b.c, _conj(a.d, b.d))
            elif z3.is_false(cnd):
                res = S(c=ZERO, d=a.d)
            else:
                # value is 0 when the condition is false, whatever (even NaN) the other operand is
                bd = z3.Implies(cnd, b.d) if b.d is not None else None
                res = S(z3.If(cnd, b.t, z3.RealVal(0)), d=_conj(a.d, bd))
        else:
            raise UnsupportedOp(f"casadi opcode {op}")
        w[oo[0]] = res
        wb[oo[0]] = res_b
        if any(x in nanconst for x in ii) and op not in (cs.OP_FMIN, cs.OP_FMAX, cs.OP_IF_ELSE_ZERO):
            nanconst.add(oo[0])
            w[oo[0]] = S(z3.RealVal(0), d=z3.BoolVal(False))
        else:
            nanconst.discard(oo[0])
    named = [(F.name_out(i), outs[i]) for i in range(F.n_out())]
    info = {"n_instructions": n_ins, "sz_w": F.sz_w(), "opcodes": {str(k): v for k, v in sorted(opcount.items())}}
    return named, info
