"""Shared per-topology machinery for the network-level numeric properties
(C01, C02, C03, C05, C07, C10, ...): produce the three encodings of one step
  Nsym  real NumPy engine + element layer on symbolic arrays (paths with conditions)
  Csx   IR of the real to_function result, SX
  Cmx   the same for MX (lowered by Function.expand())
validate the encodings against float execution of the real code, prove goals, and turn
solver models into replayed (or discarded) counterexamples."""
from __future__ import annotations

import random
import time

import z3

from . import discharge, numrun, ref_metanet, runs, symx, sx2smt, topo as T_, zeval
from .symx import S, Inconclusive, UnsupportedOp

TOL = 1e-9


class Enc:
    """one encoding of one step: outputs (el, state) -> list[S]."""

    def __init__(self, name, outs, pc=(), exc=None, extra=None):
        self.name, self.outs, self.pc, self.exc = name, outs, list(pc), exc
        self.extra = extra or {}


def numpy_encodings(topo, style="array", flags=None, domain=(), numeric=None, order=None):
    encs = []
    paths = runs.nsym(topo, style, flags, domain, numeric, order)
    for k, p in enumerate(paths):
        encs.append(Enc(f"numpy[{style}]#{k}", p.outs, p.pc, p.exc, {"shapes": p.shapes, "obligations": p.obligations}))
    return encs


def casadi_encoding(topo, symtype, numeric=None, flags=None, more_out=False, order=None):
    """compact level 0 function -> Enc keyed like the NumPy side.  extra holds F, declared, info."""
    try:
        F, built, P, declared = runs.cas_function(topo, symtype, numeric, 0, more_out, flags, order)
    except Exception as e:  # noqa
        return Enc(f"casadi[{symtype}]", {}, exc=e)
    named, info = sx2smt.translate(F, runs.binder_level0(topo, declared))
    outs = {}
    flows = {}
    for nm, vals in named:
        if nm.endswith("+"):
            st, _, el = nm[:-1].partition("_")
            outs[(el, st)] = vals
        else:
            flows[nm] = vals
    return Enc(f"casadi[{symtype}]", outs, extra={"F": F, "declared": declared, "info": info, "flows": flows,
                                                   "names_in": [F.name_in(i) for i in range(F.n_in())],
                                                   "names_out": [F.name_out(i) for i in range(F.n_out())]})


def apply_numeric(term, numeric):
    """substitute numeric parameter values into a term over named variables."""
    if not numeric:
        return term
    subs = [(z3.Real(n), symx.zconst(symx.frac_of(v))) for n, v in numeric.items()]
    return z3.substitute(term, *subs)


def validate_encoding(topo, enc: Enc, rng, style="array", flags=None, numeric=None, npoints=2):
    """Serval-style: evaluate the SMT terms at concrete points and compare with the real float code.
    Returns list of mismatch descriptions (empty = fine)."""
    bad = []
    for _ in range(npoints):
        env = numrun.sample_env(topo, rng)
        if numeric:
            env.update({k: float(v) for k, v in numeric.items()})
        if enc.name.startswith("numpy"):
            if enc.pc and not all(_safe_bool(c, env) for c in enc.pc):
                continue
            real, exc = numrun.numpy_float(topo, env, style, flags)
            if exc is not None:
                bad.append(f"float run raised {type(exc).__name__}: {exc}")
                continue
            for key, vals in enc.outs.items():
                for i, s in enumerate(vals):
                    x = zeval.evalf(s.t, env)
                    if not numrun.close(x, real[key][i], 1e-9, 1e-9):
                        bad.append(f"{enc.name} {key}[{i}] term={x!r} real={real[key][i]!r}")
        else:
            F, declared = enc.extra["F"], enc.extra["declared"]
            res = dict(numrun.casadi_float(F, numrun.casadi_args(F, topo, declared, env)))
            for (el, st), vals in enc.outs.items():
                rv = res[f"{st}_{el}+"]
                for i, s in enumerate(vals):
                    x = zeval.evalf(s.t, env)
                    if not numrun.close(x, rv[i], 1e-9, 1e-9):
                        bad.append(f"{enc.name} {st}_{el}+[{i}] term={x!r} real={rv[i]!r}")
    return bad


def _safe_bool(c, env):
    try:
        return bool(zeval.evalf(c, env))
    except Exception:
        return False


def model_env(topo, model, rng, numeric=None):
    """complete a solver model (name->float) to a full float environment."""
    env = numrun.sample_env(topo, rng)
    if numeric:
        env.update({k: float(v) for k, v in numeric.items()})
    for k, v in (model or {}).items():
        if k in env or "[" in k or "_" in k or k in ("T", "tau", "eta", "kappa", "delta", "phi"):
            env[k] = v
    return env


def real_value(topo, enc_name, env, key, i, style="array", flags=None, numeric=None, symtype=None):
    """value of one next-state component computed by the real float code."""
    if enc_name.startswith("numpy"):
        real, exc = numrun.numpy_float(topo, env, style, flags)
        if exc is not None:
            return None, exc
        return real[key][i], None
    st = "SX" if "SX" in enc_name else "MX"
    try:
        F, built, P, declared = runs.cas_function(topo, st, numeric, 0, False, flags)
        res = dict(numrun.casadi_float(F, numrun.casadi_args(F, topo, declared, env)))
    except Exception as e:  # noqa
        return None, e
    return res[f"{key[1]}_{key[0]}+"][i], None
