"""Shared per-topology machinery for the network-level numeric properties
(C01, C02, C03, C05, C07, C10, ...): produce the three encodings of one step
  Nsym  real NumPy engine + element layer on symbolic arrays (paths with conditions)
  Csx   IR of the real to_function result, SX
  Cmx   the same for MX (lowered by Function.expand())
validate the encodings against float execution of the real code, prove goals, and turn
solver models into replayed (or discarded) counterexamples."""
from __future__ import annotations

import random
import time

import z3

from . import discharge, numrun, ref_metanet, runs, symx, sx2smt, topo as T_, zeval
from .symx import S, Inconclusive, UnsupportedOp

TOL = 1e-9


class Enc:
    """one encoding of one step: outputs (el, state) -> list[S]."""

    def __init__(self, name, outs, pc=(), exc=None, extra=None):
        self.name, self.outs, self.pc, self.exc = name, outs, list(pc), exc
        self.extra = extra or {}


def numpy_encodings(topo, style="array", flags=None, domain=(), numeric=None, order=None, builder=None):
    encs = []
    paths = runs.nsym(topo, style, flags, domain, numeric, order, builder=builder)
    for k, p in enumerate(paths):
        encs.append(Enc(f"numpy[{style}]#{k}", p.outs, p.pc, p.exc, {"shapes": p.shapes, "obligations": p.obligations}))
    return encs


def casadi_encoding(topo, symtype, numeric=None, flags=None, more_out=False, order=None, builder=None):
    """compact level 0 function -> Enc keyed like the NumPy side.  extra holds F, declared, info."""
    try:
        F, built, P, declared = runs.cas_function(topo, symtype, numeric, 0, more_out, flags, order, builder=builder)
    except Exception as e:  # noqa
        return Enc(f"casadi[{symtype}]", {}, exc=e)
    named, info = sx2smt.translate(F, runs.binder_level0(topo, declared))
    outs = {}
    flows = {}
    for nm, vals in named:
        if nm.endswith("+"):
            st, _, el = nm[:-1].partition("_")
            outs[(el, st)] = vals
        else:
            flows[nm] = vals
    return Enc(f"casadi[{symtype}]", outs, extra={"F": F, "declared": declared, "info": info, "flows": flows,
                                                   "names_in": [F.name_in(i) for i in range(F.n_in())],
                                                   "names_out": [F.name_out(i) for i in range(F.n_out())]})


def apply_numeric(term, numeric):
    """substitute numeric parameter values into a term over named variables."""
    if not numeric:
        return term
    subs = [(z3.Real(n), symx.zconst(symx.frac_of(v))) for n, v in numeric.items()]
    return z3.substitute(term, *subs)


def validate_encoding(topo, enc: Enc, rng, style="array", flags=None, numeric=None, npoints=2):
    """Serval-style: evaluate the SMT terms at concrete points and compare with the real float code.
    Returns list of mismatch descriptions (empty = fine)."""
    bad = []
    for _ in range(npoints):
        env = numrun.sample_env(topo, rng)
        if numeric:
            env.update({k: float(v) for k, v in numeric.items()})
        if enc.name.startswith("numpy"):
            if enc.pc and not all(_safe_bool(c, env) for c in enc.pc):
                continue
            real, exc = numrun.numpy_float(topo, env, style, flags)
            if exc is not None:
                bad.append(f"float run raised {type(exc).__name__}: {exc}")
                continue
            for key, vals in enc.outs.items():
                if vals is None or real.get(key) is None:
                    continue  # a missing next state is reported by the caller, it is not an encoder problem
                for i, s in enumerate(vals):
                    x = zeval.evalf(s.t, env)
                    if not numrun.close(x, real[key][i], 1e-9, 1e-9):
                        bad.append(f"{enc.name} {key}[{i}] term={x!r} real={real[key][i]!r}")
        else:
            F, declared = enc.extra["F"], enc.extra["declared"]
            res = dict(numrun.casadi_float(F, numrun.casadi_args(F, topo, declared, env)))
            for (el, st), vals in enc.outs.items():
                rv = res[f"{st}_{el}+"]
                for i, s in enumerate(vals):
                    x = zeval.evalf(s.t, env)
                    if not numrun.close(x, rv[i], 1e-9, 1e-9):
                        bad.append(f"{enc.name} {st}_{el}+[{i}] term={x!r} real={rv[i]!r}")
    return bad


def _safe_bool(c, env):
    try:
        return bool(zeval.evalf(c, env))
    except Exception:
        return False


def model_env(topo, model, rng, numeric=None):
    """complete a solver model (name->float) to a full float environment."""
    env = numrun.sample_env(topo, rng)
    if numeric:
        env.update({k: float(v) for k, v in numeric.items()})
    for k, v in (model or {}).items():
        if k in env or "[" in k or "_" in k or k in ("T", "tau", "eta", "kappa", "delta", "phi"):
            env[k] = v
    return env


def real_value(topo, enc_name, env, key, i, style="array", flags=None, numeric=None, symtype=None):
    """value of one next-state component computed by the real float code."""
    if enc_name.startswith("numpy"):
        real, exc = numrun.numpy_float(topo, env, style, flags)
        if exc is not None:
            return None, exc
        return real[key][i], None
    st = "SX" if "SX" in enc_name else "MX"
    try:
        F, built, P, declared = runs.cas_function(topo, st, numeric, 0, False, flags)
        res = dict(numrun.casadi_float(F, numrun.casadi_args(F, topo, declared, env)))
    except Exception as e:  # noqa
        return None, e
    return res[f"{key[1]}_{key[0]}+"][i], None


# ----------------------------------------------------------------------------------------
# accumulator shared by the numeric checks
# ----------------------------------------------------------------------------------------
class Acc:
    """collects per-worker results in a picklable dict."""

    def __init__(self, item_name):
        self.d = {"item": item_name, "n_queries": 0, "nontrivial": 0, "levels": {}, "samples": [], "violations": [],
                  "inconclusive": [], "paths": 0, "encodings": 0, "validated": 0, "extra": {}}

    def query(self, prover, topo, encname, label, goal, dom=(), pc=(), on_sat=None, sample=True, extra=(), tag=None, retry_envs=None):
        """prove goal; on sat call on_sat(model)->violation dict | None (None = does not reproduce)."""
        d = self.d
        v = prover.prove(goal, domain=dom, pc=pc, extra=extra)
        if v.status not in ("sat", "unsat"):
            # the solver's time limit is wall-clock time: on a loaded machine a query that normally closes can run out;
            # one more attempt with three times the limit before the query counts as undecided (never counted as proved)
            t_old = prover.timeout_ms
            prover.timeout_ms = 3 * t_old
            try:
                v = prover.prove(goal, domain=dom, pc=pc, extra=extra)
                d["extra"]["retried_after_unknown"] = d["extra"].get("retried_after_unknown", 0) + 1
            finally:
                prover.timeout_ms = t_old
        d["n_queries"] += 1
        lv = v.level if v.status == "unsat" else v.status
        d["levels"][lv] = d["levels"].get(lv, 0) + 1
        if v.level != "L0":
            d["nontrivial"] += 1
        if sample and v.level != "L0" and len(d["samples"]) < 3:
            d["samples"].append({"topology": topo.describe() if topo is not None else None, "encoding": encname, "query": label,
                                 "path_condition": [str(c)[:160] for c in pc], "verdict": v.status,
                                 "ladder_level": v.level, "ms": round(v.ms, 1)})
        if v.status == "unsat":
            return True
        nm = topo.name if topo is not None else ""
        if v.status != "sat":
            # solver gave up: look for a concrete witness (never used to claim that the goal holds)
            w = self._numeric_witness(topo, goal, dom, pc, extra, on_sat)
            if w is not None:
                d["violations"].append(w)
                d["extra"]["witness_after_unknown"] = d["extra"].get("witness_after_unknown", 0) + 1
                return False
            d["inconclusive"].append(f"{nm} {encname} {label}: solver {v.status}")
            return False
        def _try(model):
            try:
                return on_sat(model)
            except (ArithmeticError, ValueError):  # e.g. a model value that underflows to 0.0 in floats
                return None

        viol = _try(v.model) if on_sat else None
        if viol is None and on_sat is not None:
            # the abstract model may be inconsistent with the real exp/log/pow: fix the parameters, fold, solve again
            envs = retry_envs
            if envs is None and topo is not None:
                rr = random.Random(len(label))
                envs = []
                for _ in range(3):
                    e = numrun.sample_env(topo, rr)
                    envs.append({k: e[k] for k in T_.param_names(topo) if k in e})
            if envs:
                fv = set(discharge.free_vars(goal))
                for c in list(dom) + list(pc) + list(extra):
                    fv |= set(discharge.free_vars(c))
                envs = [{k: x for k, x in e.items() if k in fv} for e in envs]
                m2 = prover.retry_concrete(goal, dom, pc, extra, envs)
                if m2 is not None:
                    viol = _try(m2)
                    d["extra"]["concretised_retries"] = d["extra"].get("concretised_retries", 0) + 1
        if viol is None:
            d["inconclusive"].append(f"{nm} {encname} {label}: sat model does not reproduce on the real float code")
        else:
            d["violations"].append(viol)
        return False

    def _numeric_witness(self, topo, goal, dom, pc, extra, on_sat, tries=24):
        if topo is None or on_sat is None:
            return None
        rr = random.Random(12345)
        for _ in range(tries):
            env = numrun.sample_env(topo, rr)
            for name in discharge.free_vars(goal):
                env.setdefault(name, rr.uniform(0.5, 2.0))
            try:
                if not all(bool(zeval.evalf(c, env)) for c in list(dom) + list(pc) + list(extra)):
                    continue
                if bool(zeval.evalf(goal, env)):
                    continue
                w = on_sat(env)
            except Exception:  # noqa
                continue
            if w is not None:
                return w
        return None

    def exec_violation(self, pid, topo, encname, style, msg, flags=None, extra=None):
        rec = {"property": pid, "kind": "exec", "topo": topo.to_json(), "style": style, "encoding": encname, "msg": msg,
               "flags": flags}
        if extra:
            rec.update(extra)
        self.d["violations"].append({"key": f"exec:{encname.split('#')[0]}:{topo.name}", "group": f"exec:{msg[:60]}",
                                     "what": f"{topo.describe()} | {encname}: {msg}", "replay": rec})

    def inconclusive(self, msg):
        self.d["inconclusive"].append(msg)

    def done(self, prover=None):
        if prover is not None:
            self.d["stats"] = prover.stats.asdict()
        if runs.DEFAULT_HIST:
            for v in self.d["violations"]:
                if isinstance(v.get("replay"), dict):
                    v["replay"].setdefault("hist", runs.DEFAULT_HIST)
                    v["what"] = f"[network history: {runs.DEFAULT_HIST}] " + v["what"]
        return self.d


def summarize(results):
    """merge worker dicts -> (violations, inconclusive, totals, levels, samples, stats)."""
    viol, inc, samples = [], [], []
    tot = {"n_queries": 0, "nontrivial": 0, "paths": 0, "encodings": 0, "validated": 0}
    levels = {}
    st = {"solver_s": 0.0, "congruence_queries": 0, "congruence_merges": 0}
    extra = {}
    for r in results:
        if "error" in r:
            inc.append(f"{r['item']}: worker error {r['error']} {r.get('trace', '')[-600:]}")
            continue
        viol += r["violations"]
        inc += r["inconclusive"]
        samples += r["samples"][:1]
        for k in tot:
            tot[k] += r.get(k, 0)
        for k, v in r["levels"].items():
            levels[k] = levels.get(k, 0) + v
        for k in st:
            st[k] += r.get("stats", {}).get(k, 0)
        for k, v in r.get("extra", {}).items():
            if isinstance(v, (int, float)):
                extra[k] = extra.get(k, 0) + v
            elif isinstance(v, list):
                extra.setdefault(k, []).extend(v)
    st["solver_s"] = round(st["solver_s"], 2)
    return viol, inc, tot, levels, samples, st, extra


def base_coverage(tot, levels, samples, st, n_programs, rule, extra=None):
    disch = sum(v for k, v in levels.items() if k in ("L0", "L1", "L2", "L3"))
    cov = {
        "states": max(1, tot["n_queries"]),
        "transitions": max(1, tot["encodings"]),
        "traces_validated_against_impl": tot["validated"],
        "programs": n_programs,
        "disagreements_checked": tot["n_queries"],
        "evaluations": max(1, tot["encodings"]),
        "distinct_nontrivial": tot["nontrivial"],
        "obligations": tot["n_queries"],
        "discharged": disch,
        "rule": rule,
        "queries_by_result": levels,
        "numpy_paths": tot["paths"],
        "solver": st,
        "samples": samples[:12] or [{"note": "all queries closed syntactically (ladder level L0)"}],
        "exhaustive": False,
    }
    if extra:
        cov.update(extra)
    return cov


def replay_exec(rec):
    """re-observe an execution failure on the real float/CasADi code."""
    topo = T_.Topo.from_json(rec["topo"])
    print("replay: building and stepping", topo.describe(), "with", rec["encoding"], "flags", rec.get("flags"))
    env = numrun.sample_env(topo, random.Random(0))
    exc = None
    if rec["encoding"].startswith("numpy"):
        res, exc = numrun.numpy_float(topo, env, rec.get("style", "array"), rec.get("flags"))
    else:
        try:
            runs.cas_function(topo, "SX" if "SX" in rec["encoding"] else "MX", rec.get("numeric"),
                              rec.get("compact", 0), rec.get("more_out", False), rec.get("flags"))
        except Exception as e:  # noqa
            exc = e
    print("exception:", repr(exc))
    return 1 if exc is not None else 0


def history_builders():
    """non-fresh construction histories (shared by C02, C17): name -> builder(topo, P, first_engine)."""
    from checks import c14

    return {
        "fresh": None,
        "reads-interleaved": lambda topo, P, eng: c14.build_variant(topo, P, {"order": c14.default_order(topo), "touch": True}, eng),
        "decoy-links-replaced": lambda topo, P, eng: c14.build_variant(topo, P, {"decoy": "links"}, eng),
        "decoy-attachments-replaced": lambda topo, P, eng: c14.build_variant(topo, P, {"decoy": "attach"}, eng),
        "reads-then-bulk-links": lambda topo, P, eng: c14.build_reads_then_bulk(topo, P, eng),
        "turnrates-reassigned-after-step": lambda topo, P, eng: c14.build_turnrates_reassigned(topo, P, eng),
        # all links are called "seg", all origins and destinations "od", all nodes "n" (NumPy engines only: the CasADi
        # encodings of this module bind function arguments by name)
        "same-names": lambda topo, P, eng: T_.build(topo, P, rename=lambda s: {"L": "seg", "O": "od", "D": "od"}.get(s[0], "n")),
    }


def casadi_numeric_for(topo):
    """lanes must be numeric on the CasADi side when phi is given (`lanes_drop == 0` is evaluated in Python)."""
    return {f"lam_{l.name}": 1 + (k % 3) for k, l in enumerate(topo.links)} if topo.phi else None


# ----------------------------------------------------------------------------------------
# cvc5 cross-check of recorded z3-unsat queries (thorough tiers; DESIGN 2.7)
# ----------------------------------------------------------------------------------------
def start_recording():
    discharge.RECORD = []


def take_recorded(acc: "Acc", n=3):
    rec = discharge.RECORD or []
    discharge.RECORD = None
    # spread the picks over the recorded list
    step = max(1, len(rec) // n) if rec else 1
    acc.d["recorded_smt2"] = rec[::step][:n]


def _cvc5_one(smt2):
    t0 = time.time()
    r = discharge.cvc5_check(smt2, 3000)
    return {"item": "cvc5", "res": r, "s": round(time.time() - t0, 2), "violations": [], "inconclusive": [], "samples": [], "levels": {}}


def cvc5_crosscheck(results, limit=48, serial=False):
    """re-decide a sample of the queries z3 answered `unsat` with cvc5 1.4 (wheel). 'sat' from cvc5 = disagreement."""
    from . import harness

    qs = []
    for r in results:
        qs += r.get("recorded_smt2", []) if isinstance(r, dict) else []
    if not qs:
        return {"queries": 0}, []
    step = max(1, len(qs) // limit)
    qs = qs[::step][:limit]
    out = harness.pmap(_cvc5_one, qs, False, item_timeout=30)  # cvc5's own tlimit is not honoured inside libpoly: hard kill
    stats = {"queries": len(qs), "unsat": 0, "unknown_or_timeout": 0, "sat_DISAGREEMENT": 0, "error": 0, "seconds": round(sum(o.get("s", 0) for o in out), 1)}
    problems = []
    for o in out:
        r = o.get("res", "unknown" if "exceeded" in str(o.get("error", "")) else "error")
        if r == "unsat":
            stats["unsat"] += 1
        elif r == "sat":
            stats["sat_DISAGREEMENT"] += 1
            problems.append("cvc5 answers sat on a query z3 answered unsat")
        elif r == "unknown":
            stats["unknown_or_timeout"] += 1
        else:
            # no second opinion for this query (parser/solver error of the cross-check solver): counted, reported, not decisive
            stats["error"] += 1
            stats.setdefault("error_messages", []).append(str(r)[:160])
    return stats, problems
