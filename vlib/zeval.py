"""Numeric (float) evaluation of z3 terms built by symx / sx2smt / ref_metanet, with the
uninterpreted uf_exp/uf_log/uf_pow read as math.exp/log/pow.  Used for encoder validation,
for the numeric pre-filter of congruence queries and for replays."""
from __future__ import annotations

import math
from fractions import Fraction

import z3


def z3num_to_float(v):
    if z3.is_rational_value(v):
        return float(Fraction(v.numerator_as_long(), v.denominator_as_long()))
    if z3.is_algebraic_value(v):
        a = v.approx(30)
        return float(Fraction(a.numerator_as_long(), a.denominator_as_long()))
    if z3.is_int_value(v):
        return float(v.as_long())
    try:
        return float(v.as_decimal(30).rstrip("?"))
    except Exception:
        return float("nan")


def _pow(x, y):
    try:
        if x == 0 and y <= 0:
            return float("inf") if y < 0 else 1.0
        r = math.pow(x, y)
        return r
    except (ValueError, OverflowError):
        return float("nan")


def evalf(t, env, memo=None):
    """env: name -> float. Division by zero gives inf/nan like IEEE."""
    if memo is None:
        memo = {}
    # iterative post-order
    stack = [(t, False)]
    while stack:
        x, done = stack.pop()
        i = x.get_id()
        if i in memo:
            continue
        if not done:
            if z3.is_const(x) or z3.is_rational_value(x):
                memo[i] = _leaf(x, env)
                continue
            stack.append((x, True))
            for c in x.children():
                if c.get_id() not in memo:
                    stack.append((c, False))
            continue
        ch = [memo[c.get_id()] for c in x.children()]
        memo[i] = _apply(x, ch)
    return memo[t.get_id()]


def _leaf(x, env):
    if z3.is_rational_value(x):
        return float(Fraction(x.numerator_as_long(), x.denominator_as_long()))
    if z3.is_int_value(x):
        return float(x.as_long())
    if z3.is_true(x):
        return True
    if z3.is_false(x):
        return False
    if z3.is_algebraic_value(x):
        return z3num_to_float(x)
    n = x.decl().name()
    if n in env:
        return env[n]
    raise KeyError(n)


def _div(a, b):
    try:
        return a / b
    except ZeroDivisionError:
        if a == 0 or a != a:
            return float("nan")
        return math.copysign(float("inf"), a) * (math.copysign(1.0, b))


def _apply(x, ch):
    k = x.decl().kind()
    if k == z3.Z3_OP_ADD:
        return sum(ch)
    if k == z3.Z3_OP_SUB:
        r = ch[0]
        for c in ch[1:]:
            r -= c
        return r
    if k == z3.Z3_OP_MUL:
        r = 1.0
        for c in ch:
            r *= c
        return r
    if k == z3.Z3_OP_DIV:
        return _div(ch[0], ch[1])
    if k == z3.Z3_OP_UMINUS:
        return -ch[0]
    if k == z3.Z3_OP_ITE:
        return ch[1] if ch[0] else ch[2]
    if k == z3.Z3_OP_LE:
        return ch[0] <= ch[1]
    if k == z3.Z3_OP_LT:
        return ch[0] < ch[1]
    if k == z3.Z3_OP_GE:
        return ch[0] >= ch[1]
    if k == z3.Z3_OP_GT:
        return ch[0] > ch[1]
    if k == z3.Z3_OP_EQ:
        return ch[0] == ch[1]
    if k == z3.Z3_OP_DISTINCT:
        return len(set(ch)) == len(ch)
    if k == z3.Z3_OP_NOT:
        return not ch[0]
    if k == z3.Z3_OP_AND:
        return all(ch)
    if k == z3.Z3_OP_OR:
        return any(ch)
    if k == z3.Z3_OP_IMPLIES:
        return (not ch[0]) or ch[1]
    if k == z3.Z3_OP_POWER:
        return _pow(ch[0], ch[1])
    if k == z3.Z3_OP_TO_REAL:
        return float(ch[0])
    if k == z3.Z3_OP_UNINTERPRETED:
        n = x.decl().name()
        if n == "uf_exp":
            try:
                return math.exp(ch[0])
            except OverflowError:
                return float("inf")
        if n == "uf_log":
            if ch[0] > 0:
                return math.log(ch[0])
            return float("-inf") if ch[0] == 0 else float("nan")
        if n == "uf_pow":
            return _pow(ch[0], ch[1])
    raise NotImplementedError(f"zeval: {x.decl()}")
