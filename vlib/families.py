"""Bounded families of topologies (the 'programs'), DESIGN 2.5.

K        curated: every structural role x element kind at least once
E(n, m)  all valid topologies with <= n nodes and <= m links up to node relabelling
         (self-loops and 2-cycles included; no parallel links -- the graph is a DiGraph),
         kinds/segments/options assigned by a deterministic covering rotation
R(seed)  random valid topologies beyond the bound (sampling of programs, labelled as such)
"""
from __future__ import annotations

import itertools
import random

from .topo import LinkSpec, Topo, RAMPS


def L(name, u, v, N=2, vsl=None):
    return LinkSpec(name, u, v, N, vsl)


def curated():
    K = []
    # 1 the upstream test network: two-link freeway, metered ramp at the source, simplified ramp inside
    K.append(Topo("k01_test_net", ["N1", "N2", "N3"], [L("L1", "N1", "N2", 2), L("L2", "N2", "N3", 1)],
                  {"N1": ("O1", "ramp_out"), "N2": ("O2", "simp_lim")}, {"N3": ("D1", "cong")}, delta=True))
    # 2 smallest: one link, one segment, ideal origin, free destination
    K.append(Topo("k02_single", ["A", "B"], [L("L1", "A", "B", 1)], {"A": ("O1", "ideal")}, {"B": ("D1", "free")}))
    # 3 chain with lane drop (phi) and merging (delta), mainstream origin, VSL link
    K.append(Topo("k03_chain_main_vsl", ["A", "B", "C"], [L("L1", "A", "B", 3, (0, 2)), L("L2", "B", "C", 2)],
                  {"A": ("O1", "main")}, {"C": ("D1", "free")}, phi=True))
    # 4 merge 2 -> 1
    K.append(Topo("k04_merge2", ["A", "B", "M", "Z"], [L("L1", "A", "M", 2), L("L2", "B", "M", 1), L("L3", "M", "Z", 2)],
                  {"A": ("O1", "ramp_in"), "B": ("O2", "ideal")}, {"Z": ("D1", "cong")}))
    # 5 merge 3 -> 1 with ramp at the merge node (merging term at a merge)
    K.append(Topo("k05_merge3_ramp", ["A", "B", "C", "M", "Z"],
                  [L("L1", "A", "M", 1), L("L2", "B", "M", 2), L("L3", "C", "M", 1), L("L4", "M", "Z", 2)],
                  {"A": ("O1", "ideal"), "B": ("O2", "main"), "C": ("O3", "simp_unl"), "M": ("O4", "ramp_out")},
                  {"Z": ("D1", "free")}, delta=True))
    # 6 bifurcation 1 -> 2
    K.append(Topo("k06_bif2", ["A", "X", "Y", "Z"], [L("L1", "A", "X", 2), L("L2", "X", "Y", 2), L("L3", "X", "Z", 1)],
                  {"A": ("O1", "ramp_out")}, {"Y": ("D1", "free"), "Z": ("D2", "cong")}))
    # 7 bifurcation 1 -> 3
    K.append(Topo("k07_bif3", ["A", "X", "P", "Q", "S"],
                  [L("L1", "A", "X", 1), L("L2", "X", "P", 1), L("L3", "X", "Q", 2), L("L4", "X", "S", 3)],
                  {"A": ("O1", "ideal")}, {"P": ("D1", "free"), "Q": ("D2", "free"), "S": ("D3", "cong")}))
    # 8 crossing 2 -> 2
    K.append(Topo("k08_cross22", ["A", "B", "X", "P", "Q"],
                  [L("L1", "A", "X", 2), L("L2", "B", "X", 2), L("L3", "X", "P", 2), L("L4", "X", "Q", 1)],
                  {"A": ("O1", "ramp_out"), "B": ("O2", "simp_lim")}, {"P": ("D1", "cong"), "Q": ("D2", "free")}, phi=True))
    # 9 interior ramp with one entering link (merging term), ramp 'in' variant
    K.append(Topo("k09_interior_ramp", ["A", "B", "C"], [L("L1", "A", "B", 2), L("L2", "B", "C", 3)],
                  {"A": ("O1", "ideal"), "B": ("O2", "ramp_in")}, {"C": ("D1", "free")}, delta=True))
    # 10 mainstream origin + VSL everywhere + lane drop
    K.append(Topo("k10_main_vsl_all", ["A", "B", "C"], [L("L1", "A", "B", 2, (0, 1)), L("L2", "B", "C", 1, (0,))],
                  {"A": ("O1", "main")}, {"C": ("D1", "cong")}, delta=True, phi=True))
    # 11 simplified ramps, both variants
    K.append(Topo("k11_simplified", ["A", "B", "C"], [L("L1", "A", "B", 1), L("L2", "B", "C", 2)],
                  {"A": ("O1", "simp_unl"), "B": ("O2", "simp_lim")}, {"C": ("D1", "free")}, delta=True))
    # 12 ring with ramp and an off-link
    K.append(Topo("k12_ring", ["R1", "R2", "X"], [L("L1", "R1", "R2", 2), L("L2", "R2", "R1", 1), L("L3", "R2", "X", 1)],
                  {"R1": ("O1", "ramp_out")}, {"X": ("D1", "free")}, delta=True))
    # 13 pure cycle, no origin, no destination
    K.append(Topo("k13_cycle", ["R1", "R2"], [L("L1", "R1", "R2", 2), L("L2", "R2", "R1", 2)], {}, {}, phi=True))
    # 14 self-loop with ramp
    K.append(Topo("k14_selfloop", ["R"], [L("L1", "R", "R", 2)], {"R": ("O1", "ramp_in")}, {}, delta=True, phi=True))
    # 15 all single segment: merge + bifurcation
    K.append(Topo("k15_single_seg", ["A", "B", "X", "P", "Q"],
                  [L("L1", "A", "X", 1), L("L2", "B", "X", 1), L("L3", "X", "P", 1, (0,)), L("L4", "X", "Q", 1)],
                  {"A": ("O1", "main"), "B": ("O2", "ramp_out")}, {"P": ("D1", "free"), "Q": ("D2", "cong")}))
    # 16 ideal-origin chain of three links, VSL without limited segment
    K.append(Topo("k16_ideal_chain", ["A", "B", "C", "D"], [L("L1", "A", "B", 1), L("L2", "B", "C", 2, ()), L("L3", "C", "D", 1, ())],
                  {"A": ("O1", "ideal")}, {"D": ("D1", "free")}, phi=True))
    # 17 bifurcation downstream of a merge, ramp at the bifurcation node (1 in, 2 out is forbidden with origin -> ramp at merge)
    K.append(Topo("k17_merge_then_bif", ["A", "B", "M", "X", "P", "Q"],
                  [L("L1", "A", "M", 1), L("L2", "B", "M", 2), L("L3", "M", "X", 2), L("L4", "X", "P", 1), L("L5", "X", "Q", 2)],
                  {"A": ("O1", "simp_lim"), "B": ("O2", "ramp_in")}, {"P": ("D1", "cong"), "Q": ("D2", "free")}, delta=True))
    # 18 two-cycle with entering and leaving branches (node with 2 in / 2 out inside a cycle)
    K.append(Topo("k18_cycle_branches", ["A", "R1", "R2", "Z"],
                  [L("L1", "A", "R1", 1), L("L2", "R1", "R2", 2), L("L3", "R2", "R1", 1), L("L4", "R2", "Z", 2)],
                  {"A": ("O1", "ramp_out")}, {"Z": ("D1", "cong")}, phi=True))
    # 19 merge whose node also carries an *unlimited* simplified ramp (its flow is the user-supplied value itself) + VSL downstream
    K.append(Topo("k19_merge_unl_ramp", ["A", "B", "M", "Z"], [L("L1", "A", "M", 2), L("L2", "B", "M", 1), L("L3", "M", "Z", 2, (0,))],
                  {"A": ("O1", "ideal"), "B": ("O2", "ramp_in"), "M": ("O3", "simp_unl")}, {"Z": ("D1", "free")}, delta=True))
    # 20 single-segment link that is both the first segment behind a merging ramp and the last segment before a lane drop
    K.append(Topo("k20_oneseg_merge_drop", ["A", "B", "C", "D"], [L("L1", "A", "B", 2), L("L2", "B", "C", 1), L("L3", "C", "D", 2)],
                  {"A": ("O1", "ideal"), "B": ("O2", "ramp_out")}, {"D": ("D1", "cong")}, delta=True, phi=True))
    for t in K:
        assert t.spec_valid(), t.name
    return K


def long_link():
    """beyond the 3-segment bound: one 12-segment link (two-digit segment indices) with speed limits on segments 1, 8 and 10
    (as a Python set these indices do not iterate in ascending order), used by C01, C03, C04, C05, C10, C11."""
    t = Topo("x01_long12", ["A", "B", "C"], [L("L1", "A", "B", 12, (1, 8, 10)), L("L2", "B", "C", 2, (1,))],
             {"A": ("O1", "ramp_out")}, {"C": ("D1", "cong")}, delta=True)
    assert t.spec_valid()
    return t


# ----------------------------------------------------------------------------------------
ORIGIN_ROT = ("ideal", "ramp_out", "main", "simp_lim", "ramp_in", "simp_unl")
RAMP_ROT = ("ramp_out", "simp_lim", "ramp_in", "simp_unl")


def _canon(n, edges, orig, dest):
    """canonical form under node relabelling (n <= 4: brute force)."""
    best = None
    for perm in itertools.permutations(range(n)):
        e = tuple(sorted((perm[u], perm[v]) for u, v in edges))
        o = tuple(sorted(perm[x] for x in orig))
        d = tuple(sorted(perm[x] for x in dest))
        key = (e, o, d)
        if best is None or key < best:
            best = key
    return best


def enumerate_structures(max_nodes, max_links):
    """all (n, edges, origin nodes, destination nodes) that can be completed to a valid network,
    up to isomorphism.  Validity is structural here (spec), re-checked on the built Topo."""
    seen = set()
    out = []
    for n in range(1, max_nodes + 1):
        pairs = [(u, v) for u in range(n) for v in range(n)]
        for m in range(1, max_links + 1):
            for edges in itertools.combinations(pairs, m):
                indeg = [0] * n
                outdeg = [0] * n
                for u, v in edges:
                    outdeg[u] += 1
                    indeg[v] += 1
                if any(indeg[i] + outdeg[i] == 0 for i in range(n)):
                    continue
                # destinations are forced: exactly the sinks (a destination needs outdeg 0, indeg<=1)
                dest = [i for i in range(n) if outdeg[i] == 0]
                if any(indeg[i] > 1 for i in dest):
                    continue
                must_o = [i for i in range(n) if indeg[i] == 0]
                if any(outdeg[i] > 1 for i in must_o):
                    continue
                may_o = [i for i in range(n) if indeg[i] > 0 and outdeg[i] == 1]  # ramps only
                for k in range(len(may_o) + 1):
                    for extra in itertools.combinations(may_o, k):
                        orig = must_o + list(extra)
                        key = (n,) + _canon(n, edges, orig, dest)
                        if key in seen:
                            continue
                        seen.add(key)
                        out.append((n, edges, tuple(orig), tuple(dest)))
    return out


def decorate(idx, struct, name=None, maxN=3):
    """assign element kinds / segment counts / options by a deterministic rotation on idx."""
    n, edges, orig, dest = struct
    nodes = [f"N{i}" for i in range(n)]
    indeg = [0] * n
    for u, v in edges:
        indeg[v] += 1
    links = []
    for j, (u, v) in enumerate(edges):
        N = 1 + (idx + j) % maxN
        vsl = None
        r = (idx // 2 + j) % 5
        if r == 0:
            vsl = tuple(range(N))
        elif r == 1:
            vsl = (N - 1,)
        links.append(LinkSpec(f"L{j}", nodes[u], nodes[v], N, vsl))
    origins, dests = {}, {}
    for j, o in enumerate(orig):
        if indeg[o] > 0:
            kind = RAMP_ROT[(idx + j) % len(RAMP_ROT)]
        else:
            kind = ORIGIN_ROT[(idx + j) % len(ORIGIN_ROT)]
        origins[nodes[o]] = (f"O{j}", kind)
    for j, d in enumerate(dest):
        dests[nodes[d]] = (f"D{j}", ("free", "cong")[(idx + j) % 2])
    t = Topo(name or f"e{idx:04d}", nodes, links, origins, dests, delta=bool(idx % 2), phi=bool((idx // 2) % 2))
    assert t.spec_valid(), t.describe()
    return t


_ENUM_CACHE = {}


def E(max_nodes, max_links, maxN=3):
    key = (max_nodes, max_links, maxN)
    if key not in _ENUM_CACHE:
        structs = enumerate_structures(max_nodes, max_links)
        tag = "" if maxN == 3 else f"n{maxN}"
        _ENUM_CACHE[key] = [decorate(i, s, f"e{max_nodes}{max_links}{tag}_{i:04d}", maxN) for i, s in enumerate(structs)]
    return _ENUM_CACHE[key]


def random_topos(seed, count, max_nodes=6, max_links=8):
    rng = random.Random(seed)
    out = []
    tries = 0
    while len(out) < count and tries < count * 2000:
        tries += 1
        n = rng.randint(2, max_nodes)
        pairs = [(u, v) for u in range(n) for v in range(n)]
        m = rng.randint(max(1, n - 1), min(max_links, len(pairs)))
        edges = tuple(sorted(rng.sample(pairs, m)))
        indeg = [0] * n
        outdeg = [0] * n
        for u, v in edges:
            outdeg[u] += 1
            indeg[v] += 1
        if any(indeg[i] + outdeg[i] == 0 for i in range(n)):
            continue
        dest = [i for i in range(n) if outdeg[i] == 0]
        if any(indeg[i] > 1 for i in dest):
            continue
        must_o = [i for i in range(n) if indeg[i] == 0]
        if any(outdeg[i] > 1 for i in must_o):
            continue
        may_o = [i for i in range(n) if indeg[i] > 0 and outdeg[i] == 1]
        orig = must_o + [i for i in may_o if rng.random() < 0.4]
        out.append(decorate(rng.randrange(10000), (n, edges, tuple(orig), tuple(dest)), f"r{seed}_{len(out):03d}"))
    return out
