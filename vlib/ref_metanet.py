"""ref_metanet -- reference METANET model written from Hegyi (2004), eqs. 3.1-3.11 and
section 3.2.2, over a plain topology description (vlib.topo.Topo).  Not derived from the
repository.  Output: one z3 real term per segment / queue, over the variable names of
vlib.topo.

Abstentions (DESIGN 2.3): the oracle's `domain` for an output lists the conditions under
which the comparison is demanded (mainstream origin only for v_lim/v_free >= 0.05, the code's
documented NaN guard; lane *gain* outside the lane-drop clause).
"""
from __future__ import annotations

from fractions import Fraction

import z3

from .symx import uf_exp, uf_log, uf_pow, zconst
from . import topo as T_

C005 = zconst(Fraction(0.05))  # the code's guard constant, exactly as the float it is


def R(name):
    return z3.Real(name)


def zmin(a, b):
    return z3.If(a <= b, a, b)


def zmax(a, b):
    return z3.If(a >= b, a, b)


class Ref:
    def __init__(self, topo: T_.Topo, single_scalar=True, clamp_init=None):
        """clamp_init: optional callable(kind, term)->term applied to every initial state read
        (used by C11 to build Clamp_init)."""
        self.topo = topo
        self.ci = clamp_init or (lambda kind, t: t)
        self.T, self.tau, self.eta, self.kappa = R("T"), R("tau"), R("eta"), R("kappa")
        self.delta = R("delta") if topo.delta else None
        self.phi = R("phi") if topo.phi else None
        self.extra_domain = {}  # (el, state, i) -> list of Bool : oracle abstains outside
        self._qo = {}
        self.next = {}
        self.q_seg = {}
        self.q_in = {}
        self.v_up = {}
        self.rho_down = {}
        self.qo_domain = {}
        self._build()

    # ---- variables
    def p(self, pname, el):
        return R(f"{pname}_{el}")

    def rho(self, l, i):
        return self.ci("density", R(f"rho_{l.name}[{i}]"))

    def v(self, l, i):
        return self.ci("speed", R(f"v_{l.name}[{i}]"))

    def w(self, o):
        return self.ci("queue", R(f"w_{o}"))

    def q(self, l, i):
        return self.rho(l, i) * self.v(l, i) * self.p("lam", l.name)

    def Veq(self, l, rho):
        return self.p("vfree", l.name) * uf_exp((-1 / self.p("a", l.name)) * uf_pow(rho / self.p("rhocrit", l.name), self.p("a", l.name)))

    # ---- origins
    def origin_flow(self, node):
        """flow admitted by the origin at `node` (None if no origin)."""
        if node not in self.topo.origins:
            return None
        if node in self._qo:
            return self._qo[node]
        o, kind = self.topo.origins[node]
        (l,) = self.topo.out_links(node)  # validity: exactly one leaving link
        T = self.T
        dom = []
        if kind == "ideal":
            q = self.q(l, 0)
        else:
            d, w = R(f"d_{o}"), self.w(o)
            demand = d + w / T
            rmax, rcrit = self.p("rhomax", l.name), self.p("rhocrit", l.name)
            space = (rmax - self.rho(l, 0)) / (rmax - rcrit)
            if kind == "ramp_in":  # eq. 3.5-like: rate inside the min
                C, r = self.p("C", o), R(f"r_{o}")
                q = zmin(demand, C * zmin(r, space))
            elif kind == "ramp_out":  # eq. 3.6: rate outside
                C, r = self.p("C", o), R(f"r_{o}")
                q = r * zmin(demand, C * zmin(z3.RealVal(1), space))
            elif kind == "simp_lim":
                C, qd = self.p("C", o), R(f"q_{o}")
                q = zmin(qd, zmin(demand, C * zmin(z3.RealVal(1), space)))
            elif kind == "simp_unl":
                q = R(f"q_{o}")
            elif kind == "main":  # section 3.3.3
                vfree, a, lam = self.p("vfree", l.name), self.p("a", l.name), self.p("lam", l.name)
                v_lim = zmin(R(f"vctrl_{o}"), self.v(l, 0))
                V_crit = self.Veq(l, rcrit)
                q_speed = lam * v_lim * rcrit * uf_pow(-a * uf_log(v_lim / vfree), 1 / a)
                q_cap = lam * V_crit * rcrit
                q = zmin(demand, z3.If(v_lim < V_crit, q_speed, q_cap))
                dom = [v_lim / vfree >= C005]
            else:
                raise ValueError(kind)
        self._qo[node] = q
        self.qo_domain[node] = dom
        return q

    # ---- nodes
    def node_inflow(self, node):
        """total flow entering the node: last segments of entering links + origin."""
        Q = None
        for mu in self.topo.in_links(node):
            t = self.q(mu, mu.N - 1)
            Q = t if Q is None else Q + t
        qo = self.origin_flow(node)
        if qo is not None:
            Q = qo if Q is None else Q + qo
        return Q

    def upstream_flow(self, l):
        node = l.u
        outs = self.topo.out_links(node)
        Q = self.node_inflow(node)
        if len(outs) == 1:
            return Q
        bsum = None
        for m in outs:
            b = self.p("beta", m.name)
            bsum = b if bsum is None else bsum + b
        return (self.p("beta", l.name) / bsum) * Q

    def upstream_speed(self, l):
        node = l.u
        ins = self.topo.in_links(node)
        if not ins:  # boundary: v_{m,0} = v_{m,1}
            return self.v(l, 0)
        if len(ins) == 1:
            mu = ins[0]
            return self.v(mu, mu.N - 1)
        num = den = None
        for mu in ins:
            qq = self.q(mu, mu.N - 1)
            t = self.v(mu, mu.N - 1) * qq
            num = t if num is None else num + t
            den = qq if den is None else den + qq
        return num / den  # eq. 3.10

    def downstream_density(self, l):
        node = l.v
        if node in self.topo.dests:
            d, kind = self.topo.dests[node]
            free = zmin(self.rho(l, l.N - 1), self.p("rhocrit", l.name))
            if kind == "free":
                return free
            return zmax(free, R(f"d_{d}"))
        outs = self.topo.out_links(node)
        if len(outs) == 1:
            return self.rho(outs[0], 0)
        num = den = None
        for m in outs:
            r = self.rho(m, 0)
            num = r * r if num is None else num + r * r
            den = r if den is None else den + r
        return num / den  # eq. 3.9 over FIRST segments

    # ---- whole network
    def _build(self):
        topo, T = self.topo, self.T
        for l in topo.links:
            lam, L = self.p("lam", l.name), self.p("L", l.name)
            q0 = self.upstream_flow(l)
            v0 = self.upstream_speed(l)
            rhoN1 = self.downstream_density(l)
            self.q_in[l.name], self.v_up[l.name], self.rho_down[l.name] = q0, v0, rhoN1
            up_origin_dom = list(self.qo_domain.get(l.u, []))
            rho_next, v_next = [], []
            for i in range(l.N):
                rho, v, q = self.rho(l, i), self.v(l, i), self.q(l, i)
                self.q_seg[(l.name, i)] = q
                q_up = q0 if i == 0 else self.q(l, i - 1)
                v_up = v0 if i == 0 else self.v(l, i - 1)
                rho_dn = rhoN1 if i == l.N - 1 else self.rho(l, i + 1)
                rho_next.append(rho + (T / (L * lam)) * (q_up - q))  # eq. 3.1/3.2
                V = self.Veq(l, rho)
                if l.is_vsl and i in l.vsl:  # eq. 3.11
                    j = sorted(l.vsl).index(i)
                    V = zmin(V, (1 + self.p("alpha", l.name)) * R(f"vctrl_{l.name}[{j}]"))
                vn = (v + (T / self.tau) * (V - v) + (T / L) * v * (v_up - v)
                      - (self.eta * T / (self.tau * L)) * (rho_dn - rho) / (rho + self.kappa))  # eq. 3.3
                dom = []
                if i == 0:
                    dom += [] if False else []
                    # merging term, eq. 3.7: metered on-ramp at a node that also has entering links
                    if self.delta is not None and l.u in topo.origins and topo.in_links(l.u) \
                            and topo.origins[l.u][1] in T_.RAMPS:
                        qr = self.origin_flow(l.u)
                        vn = vn - (self.delta * T * qr * v) / (L * lam * (rho + self.kappa))
                if i == l.N - 1 and self.phi is not None and l.v not in topo.dests:
                    outs = topo.out_links(l.v)
                    if len(outs) == 1:  # lane drop, eq. 3.8
                        dlam = lam - self.p("lam", outs[0].name)
                        vn = vn - (self.phi * T * dlam * rho * v * v) / (L * lam * self.p("rhocrit", l.name))
                        dom.append(dlam >= 0)
                v_next.append(vn)
                if i == 0 and up_origin_dom:
                    self.extra_domain[(l.name, "rho", 0)] = up_origin_dom
                if dom:
                    self.extra_domain[(l.name, "v", i)] = dom
            self.next[(l.name, "rho")] = rho_next
            self.next[(l.name, "v")] = v_next
        for node, (o, kind) in topo.origins.items():
            if kind in T_.QUEUED:
                qo = self.origin_flow(node)
                self.next[(o, "w")] = [self.w(o) + T * (R(f"d_{o}") - qo)]  # eq. 3.4 (queue)
                if self.qo_domain.get(node):
                    self.extra_domain[(o, "w", 0)] = list(self.qo_domain[node])

    def clamp_next(self, kind_of, f):
        """apply f(kind, term) to every next state (C11)."""
        out = {}
        for (el, st), terms in self.next.items():
            kind = {"rho": "density", "v": "speed", "w": "queue"}[st]
            out[(el, st)] = [f(kind, t) for t in terms]
        return out


def admissible_domain(topo: T_.Topo, strict_states=False, numeric=None):
    """D: physical parameters > 0, rho_max > rho_crit, 1+alpha > 0, delta/phi >= 0,
    states/controls/disturbances >= 0, and the model's own 0/0 points excluded."""
    D = []
    skip = set(numeric or ())

    def add(name, c):
        if name not in skip:
            D.append(c)

    for l in topo.links:
        for pn in T_.LINK_PARAMS:
            add(f"{pn}_{l.name}", R(f"{pn}_{l.name}") > 0)
        D.append(R(f"rhomax_{l.name}") > R(f"rhocrit_{l.name}"))
        if l.is_vsl:
            D.append(1 + R(f"alpha_{l.name}") > 0)
            for j in range(len(l.vsl)):
                D.append(R(f"vctrl_{l.name}[{j}]") >= 0)
        for i in range(l.N):
            D.append(R(f"rho_{l.name}[{i}]") >= 0)
            D.append(R(f"v_{l.name}[{i}]") >= 0)
    for n, (o, k) in topo.origins.items():
        if k in T_.RAMPS:
            D.append(R(f"C_{o}") > 0)
        if k in T_.QUEUED:
            D += [R(f"w_{o}") >= 0, R(f"d_{o}") >= 0]
            if k in ("ramp_in", "ramp_out"):
                D += [R(f"r_{o}") >= 0, R(f"r_{o}") <= 1]
            elif k in ("simp_lim", "simp_unl"):
                D.append(R(f"q_{o}") >= 0)
            else:
                D.append(R(f"vctrl_{o}") >= 0)
    for n, (d, k) in topo.dests.items():
        if k == "cong":
            D.append(R(f"d_{d}") >= 0)
    for pn in T_.MODEL_PARAMS:
        D.append(R(pn) > 0)
    if topo.delta:
        D.append(R("delta") >= 0)
    if topo.phi:
        D.append(R("phi") >= 0)
    # the model's own 0/0 points (excluded by the property statement)
    for n in topo.nodes:
        ins, outs = topo.in_links(n), topo.out_links(n)
        if len(ins) >= 2:
            tot = None
            for mu in ins:
                q = R(f"rho_{mu.name}[{mu.N-1}]") * R(f"v_{mu.name}[{mu.N-1}]") * R(f"lam_{mu.name}")
                tot = q if tot is None else tot + q
            D.append(tot > 0)
        if len(outs) >= 2 and ins and n not in topo.dests:
            tot = None
            for m in outs:
                r = R(f"rho_{m.name}[0]")
                tot = r if tot is None else tot + r
            D.append(tot > 0)
    return D
