"""Runners: execute the *real* sym_metanet code on a topology
  - nsym:   NumPy engine + element layer on symbolic arrays (all paths)
  - nfloat: the same on float arrays (encoder validation, replays)
  - cas:    CasADi engine step + to_function, IR translated by sx2smt
All three share variable names (vlib.topo)."""
from __future__ import annotations

import itertools
from fractions import Fraction

import numpy as np
import z3

from . import symx, topo as T_
from .symx import S, SymArray, explore

FLAGS = ("positive_init_speed", "positive_init_density", "positive_init_queue",
         "positive_next_speed", "positive_next_density", "positive_next_queue")
NOFLAGS = {f: False for f in FLAGS}


# construction history used by step_numpy / cas_function when the caller passes no builder: a check whose work item is
# "topology under history h" sets it once, so that encoder validation and the replay of solver models run the real code
# on a network with the SAME history (a failure that only a non-fresh network shows must reproduce to be reported)
DEFAULT_HIST = None


def set_default_history(name):
    global DEFAULT_HIST
    DEFAULT_HIST = None if name in (None, "fresh") else name


def _default_builder():
    if DEFAULT_HIST is None:
        return None
    from . import netcheck

    return netcheck.history_builders()[DEFAULT_HIST]


def flags_of(bits):
    return {f: bool(bits >> i & 1) for i, f in enumerate(FLAGS)}


# ----------------------------------------------------------------------------------------
def sym_params(topo, numeric=None):
    """dict name -> S var; `numeric`: dict of names kept as plain numbers."""
    P = {}
    for n in T_.param_names(topo):
        if numeric and n in numeric:
            P[n] = numeric[n]
        else:
            P[n] = S.var(n)
    return P


def sym_inputs(topo, style="array"):
    """(element name, varname) -> SymArray | S.  style: 'array' ((n,) arrays for everything,
    as engine.var creates them) or 'scalar' (0-d scalars for the length-1 quantities)."""
    X = {}
    for grp, el, var, n in T_.input_layout(topo):
        base = T_.zname(var, el)
        if _is_single(topo, el):
            X[(el, var)] = S.var(base) if style == "scalar" else SymArray.of([S.var(base)])
        else:
            X[(el, var)] = SymArray.of([S.var(f"{base}[{i}]") for i in range(n)])
    return X


def _origin_names(topo):
    return {o for o, _ in topo.origins.values()}


def _is_single(topo, el):
    """origins' and destinations' quantities are single values; links' are per-segment vectors."""
    return el in _origin_names(topo) or el in {d for d, _ in topo.dests.values()}


def float_inputs(topo, env, style="array", int_states=False):
    """int_states: link densities/speeds as int64 arrays (whole numbers) -- array dtype is outside the symbolic model,
    used only by plain-execution companions"""
    X = {}
    for grp, el, var, n in T_.input_layout(topo):
        base = T_.zname(var, el)
        if _is_single(topo, el):
            X[(el, var)] = float(env[base]) if style == "scalar" else np.array([env[base]], dtype=float)
        else:
            if int_states and var in ("rho", "v"):
                X[(el, var)] = np.array([int(round(env[f"{base}[{i}]"])) for i in range(n)], dtype=np.int64)
            else:
                X[(el, var)] = np.array([env[f"{base}[{i}]"] for i in range(n)], dtype=float)
    return X


def input_names(topo):
    """flat list of z3 variable names of all inputs."""
    names = []
    for grp, el, var, n in T_.input_layout(topo):
        base = T_.zname(var, el)
        if _is_single(topo, el):
            names.append(base)
        else:
            names += [f"{base}[{i}]" for i in range(n)]
    return names


def init_conditions(built, X):
    ic = {}
    for (el, var), val in X.items():
        ic.setdefault(built.element(el), {})[var] = val
    return ic


def collect_next(topo, built):
    """(element name, state name) -> raw next state object."""
    out = {}
    for l in topo.links:
        ns = built.links[l.name].next_states
        out[(l.name, "rho")] = ns["rho"] if ns else None
        out[(l.name, "v")] = ns["v"] if ns else None
    for n, (o, k) in topo.origins.items():
        if k in T_.QUEUED:
            ns = built.origins[o].next_states
            out[(o, "w")] = ns["w"] if ns else None
    return out


def numpy_engine():
    from sym_metanet.engines.numpy import Engine

    return Engine()


def symvar_engine():
    """the real NumPy engine, except that the variables it creates itself are symbolic arrays (used for first steps
    of networks whose parameters are symbolic)"""
    from sym_metanet.engines.numpy import Engine

    class SymVarEngine(Engine):
        _count = [0]

        def var(self, name, n=1, *args, **kwargs):
            self._count[0] += 1
            return SymArray.of([S.var(f"own!{name}!{self._count[0]}[{i}]") for i in range(n)])

    return SymVarEngine()


def step_numpy(topo, P, X, flags=None, engine=None, order=None, copy_inputs=False, builder=None):
    """build + step with the real NumPy engine; returns (built, next-state dict).
    builder: optional callable(topo, P, first_engine) -> Built for non-standard construction histories."""
    if builder is None and order is None:
        builder = _default_builder()
    built = builder(topo, P, None) if builder else T_.build(topo, P, order=order)
    eng = engine or numpy_engine()
    ic = init_conditions(built, X)
    built.net.step(init_conditions=ic, engine=eng, **(flags or NOFLAGS), **T_.model_kwargs(topo, P))
    return built, collect_next(topo, built)


class NPath:
    def __init__(self, pr, outs, shapes):
        self.pc = pr.pc
        self.decisions = pr.decisions
        self.obligations = pr.obligations
        self.exc = pr.exc
        self.outs = outs  # (el, state) -> list[S]
        self.shapes = shapes  # (el, state) -> (in shape, out shape)


def nsym(topo, style="array", flags=None, domain=(), numeric=None, order=None, hook=None, builder=None):
    """All paths of the real NumPy-engine step on symbolic arrays."""
    paths = []
    holder = {}

    def fn():
        P = sym_params(topo, numeric)
        X = sym_inputs(topo, style)
        built, nxt = step_numpy(topo, P, X, flags, order=order, builder=builder)
        holder["X"], holder["built"] = X, built
        if hook:
            hook(built, P, X)
        return nxt

    for pr in explore(fn, domain=domain):
        outs, shapes = {}, {}
        if pr.exc is None:
            X = holder["X"]
            for key, val in pr.value.items():
                outs[key] = symx.leaves(val) if val is not None else None
                shapes[key] = (symx.shape_of(X[key]), symx.shape_of(val))
        paths.append(NPath(pr, outs, shapes))
    return paths


# ----------------------------------------------------------------------------------------
# CasADi
# ----------------------------------------------------------------------------------------
def casadi_engine(symtype):
    from sym_metanet.engines.casadi import Engine

    return Engine(symtype)


def cas_params(topo, symtype, numeric=None, same_display_names=False):
    """parameter dict for the CasADi side: symbols except names in `numeric` (name->number)."""
    import casadi as cs

    XX = getattr(cs, symtype)
    P, symbolic = {}, {}
    for n in T_.param_names(topo):
        if numeric and n in numeric:
            P[n] = numeric[n]
        else:
            # distinct symbols may carry the same display name (e.g. one 'rho_crit' symbol per link from a factory)
            P[n] = XX.sym(n.split("_")[0] if same_display_names else n)
            symbolic[n] = P[n]
    return P, symbolic


def cas_function(topo, symtype="SX", numeric=None, compact=0, more_out=False, flags=None, order=None,
                 declare=None, dual_route=False, rename=None, builder=None, same_display_names=False):
    """real step with the CasADi engine + to_function.  Returns (F, built, P, symbolic-params).
    `declare`: optional ordered list of parameter names to declare (default: all symbolic ones)."""
    P, symbolic = cas_params(topo, symtype, numeric, same_display_names)
    if builder is None and order is None and rename is None:
        builder = _default_builder()
    built = builder(topo, P, casadi_engine(symtype)) if builder else T_.build(topo, P, order=order, rename=rename)
    eng = casadi_engine(symtype)
    kw = T_.model_kwargs(topo, P)
    built.net.step(engine=eng, **(flags or NOFLAGS), **kw)
    if declare is not None:
        symbolic = {k: symbolic[k] for k in declare}
    others = {k: v for k, v in kw.items() if k not in symbolic}
    if dual_route and not more_out:
        # documented use: model parameters forwarded as **other_parameters exactly as they were given to net.step,
        # the symbolic ones additionally declared through `parameters`
        others = dict(kw)
    F = eng.to_function(built.net, compact=compact, more_out=more_out, parameters=symbolic, **others)
    return F, built, P, symbolic


def binder_level0(topo, declared):
    """bind() for sx2smt at compact level 0: input names are '<var>_<element>' / parameter names."""
    table = {}
    for grp, el, var, n in T_.input_layout(topo):
        table[f"{var}_{el}"] = (T_.zname(var, el), _is_single(topo, el), n)

    def bind(i_in, name, k, n):
        if name in declared:
            return S.var(name)
        if name not in table:
            raise symx.Inconclusive(f"function input '{name}' is not an input of the description")
        zn, single, size = table[name]
        if n != size:
            raise symx.Inconclusive(f"function input '{name}' has size {n}, expected {size}")
        return S.var(zn) if single else S.var(f"{zn}[{k}]")

    return bind
