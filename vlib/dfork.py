"""Discrete fork-executor helpers: symbolic booleans / bounded ints over z3 Bool/Int variables,
with a cheap feasibility oracle (plain z3 solver; no arithmetic abstraction needed)."""
from __future__ import annotations

import z3

from . import symx
from .symx import SB, explore


def feasible(conds):
    s = z3.Solver()
    s.add(*conds)
    return s.check() != z3.unsat


def flag(name):
    return SB(z3.Bool(name))


class SymInt:
    """bounded symbolic integer; `choose()` forks over its values (one decision per comparison)."""

    def __init__(self, name, lo, hi):
        self.v = z3.Int(name)
        self.lo, self.hi = lo, hi

    def domain(self):
        return [self.v >= self.lo, self.v <= self.hi]

    def choose(self):
        for k in range(self.lo, self.hi):
            if SB(self.v == k):
                return k
        return self.hi


def run_all(fn, domain=(), max_paths=2000000, catch=(Exception,)):
    return explore(fn, domain=domain, feasible=feasible, max_paths=max_paths, max_depth=256, catch=catch)


def solver_says(pc, goal):
    """is `goal` implied by the path condition?  returns 'unsat' when pc AND NOT goal is unsatisfiable."""
    s = z3.Solver()
    s.add(*pc)
    s.add(z3.Not(goal))
    return str(s.check())


def model_of(pc):
    s = z3.Solver()
    s.add(*pc)
    if s.check() == z3.sat:
        m = s.model()
        return {d.name(): str(m[d]) for d in m.decls()}
    return {}
