"""Primitive-level harness (C15, C17, C18): every primitive of the engine interface, in every
variant and argument shape the element layer produces, executed
  - NumPy engine: on symbolic values (S / SymArray), all paths
  - CasADi engine: on SX (or MX -> expand) symbols, wrapped in a casadi.Function whose IR is
    translated by sx2smt
over one shared set of variables named '<arg>' / '<arg>[i]'."""
from __future__ import annotations

import itertools
from dataclasses import dataclass, field
from fractions import Fraction

import numpy as np
import z3

from . import symx, sx2smt
from .symx import S, SymArray, explore

R = z3.Real


@dataclass
class Arg:
    name: str
    n: int = 0  # 0 = 0-d scalar; k>0 = length-k vector
    static: object = None  # python value passed as is (type strings, index lists, None)
    is_static: bool = False


@dataclass
class Variant:
    prim: str  # e.g. links.step_speed
    label: str
    args: list
    domain: object = None  # callable(dict name -> list[z3 terms]) -> list[Bool]
    kind: str = "model"

    @property
    def name(self):
        return f"{self.prim}[{self.label}]"


def zvars(a: Arg):
    if a.n < 0:  # empty vector
        return []
    if a.n == 0:
        return [R(a.name)]
    return [R(f"{a.name}[{i}]") for i in range(a.n)]


def numpy_args(v: Variant):
    out = []
    for a in v.args:
        if a.is_static:
            out.append(a.static)
        elif a.n == 0:
            out.append(S.var(a.name))
        elif a.n < 0:
            out.append(SymArray.of([]))
        else:
            out.append(SymArray.of([S.var(f"{a.name}[{i}]") for i in range(a.n)]))
    return out


def float_args(v: Variant, env):
    out = []
    for a in v.args:
        if a.is_static:
            out.append(a.static)
        elif a.n == 0:
            out.append(float(env[a.name]))
        elif a.n < 0:
            out.append(np.zeros(0))
        else:
            out.append(np.array([env[f"{a.name}[{i}]"] for i in range(a.n)], dtype=float))
    return out


def get_prim(engine, prim):
    if "." in prim:
        grp, fn = prim.split(".")
        return getattr(getattr(engine, grp), fn)
    return getattr(engine, prim)


def run_numpy(v: Variant, domain=()):
    """all paths of the NumPy primitive on symbolic args -> list of (pc, [S...] | None, exc)."""
    from sym_metanet.engines.numpy import Engine

    eng = Engine()
    res = []

    def fn():
        return get_prim(eng, v.prim)(*numpy_args(v))

    for pr in explore(fn, domain=domain):
        vals = symx.leaves(pr.value) if pr.exc is None else None
        shape = symx.shape_of(pr.value) if pr.exc is None else None
        res.append((pr.pc, vals, pr.exc, shape, pr.obligations))
    return res


def run_numpy_float(v: Variant, env):
    from sym_metanet.engines.numpy import Engine
    import warnings

    eng = Engine()
    with warnings.catch_warnings():
        warnings.simplefilter("ignore")
        with np.errstate(all="ignore"):
            try:
                r = get_prim(eng, v.prim)(*float_args(v, env))
            except Exception as e:  # noqa
                return None, e
    return [float(x) for x in np.atleast_1d(np.asarray(r, dtype=float)).reshape(-1)], None


def casadi_function(v: Variant, symtype="SX", sparse_zero=None):
    """sparse_zero=(argument name, index): that entry of that vector argument is a STRUCTURAL zero of a sparse CasADi
    vector (what DM(n,1)/sparsify give for a stopped or empty segment) instead of a symbol; the function's inputs stay
    the full symbol vectors (the entry's input is simply unused)."""
    import casadi as cs
    from sym_metanet.engines.casadi import Engine

    eng = Engine(symtype)
    XX = getattr(cs, symtype)
    syms, call_args = [], []
    for a in v.args:
        if a.is_static:
            call_args.append(a.static)
        else:
            s = XX.sym(a.name, 0 if a.n < 0 else max(a.n, 1), 1)
            syms.append((a, s))
            if sparse_zero and sparse_zero[0] == a.name:
                z = XX(a.n, 1)
                for k in range(a.n):
                    if k != sparse_zero[1]:
                        z[k] = s[k]
                call_args.append(z)
            else:
                call_args.append(s)
    out = get_prim(eng, v.prim)(*call_args)
    F = cs.Function("P", [s for _, s in syms], [out], [a.name for a, _ in syms], ["out"], {"allow_duplicate_io_names": True})
    return F, [a for a, _ in syms]


def run_casadi(v: Variant, symtype="SX", sparse_zero=None):
    F, sargs = casadi_function(v, symtype, sparse_zero)

    def bind(i_in, name, k, n):
        a = sargs[i_in]
        return S.var(a.name if a.n == 0 else f"{a.name}[{k}]")

    named, info = sx2smt.translate(F, bind)
    return named[0][1], F, sargs, info


def run_casadi_float(F, sargs, env):
    import casadi as cs

    args = []
    for a in sargs:
        if a.n < 0:
            args.append(cs.DM.zeros(0, 1))
        else:
            args.append(cs.DM([env[a.name]] if a.n == 0 else [env[f"{a.name}[{i}]"] for i in range(a.n)]))
    r = F(*args)
    return [float(x) for x in np.asarray(r.full()).reshape(-1)]


# ----------------------------------------------------------------------------------------
# domains
# ----------------------------------------------------------------------------------------
def _allvars(v: Variant):
    d = {}
    for a in v.args:
        if not a.is_static:
            d[a.name] = zvars(a)
    return d


POS = {"lanes", "L", "T", "tau", "eta", "kappa", "v_free", "rho_crit", "a", "rho_max", "C", "beta", "betas"}
NONNEG = {"rho", "v", "v_up", "rho_down", "Veq", "q", "q_up", "q_lasts", "v_lasts", "rho_firsts", "w", "d", "q_ramp", "delta",
          "phi", "v_ctrl", "v_first", "rho_first", "rho_last", "rho_destination", "qdes", "r", "q_orig", "x", "y", "z"}
# lanes_drop (lanes of this link minus lanes of the next) may have either sign: a lane GAIN is admissible


def default_domain(v: Variant):
    D = []
    vs = _allvars(v)
    for name, zs in vs.items():
        for z in zs:
            if name in POS:
                D.append(z > 0)
            elif name in NONNEG:
                D.append(z >= 0)
    if "r" in vs:
        D.append(vs["r"][0] <= 1)
    if "alpha" in vs:
        D.append(1 + vs["alpha"][0] > 0)
    if "rho_max" in vs and "rho_crit" in vs:
        D.append(vs["rho_max"][0] > vs["rho_crit"][0])
    if v.prim == "nodes.get_upstream_speed":
        D.append(z3.Sum(*vs["q_lasts"]) > 0)
    if v.prim == "nodes.get_downstream_density":
        D.append(z3.Sum(*vs["rho_firsts"]) > 0)
    return D


# ----------------------------------------------------------------------------------------
# the table
# ----------------------------------------------------------------------------------------
def A(name, n=0):
    return Arg(name, n)


def ST(name, val):
    if isinstance(val, str) and len(val) > 1:
        val = "".join([val[:1], val[1:]])  # equal but not interned (as read from a file): variants must be selected by value
    return Arg(name, 0, val, True)


def variants(thorough=False):
    V = []
    vecN = (1, 2, 3)
    # nodes
    for n in (1, 2, 3):
        for m in (2, 3):
            V.append(Variant("nodes.get_upstream_flow", f"n{n}m{m}", [A("q_lasts", n), A("beta"), A("betas", m)]))
            V.append(Variant("nodes.get_upstream_flow", f"n{n}m{m}+orig", [A("q_lasts", n), A("beta"), A("betas", m), A("q_orig")]))
    V.append(Variant("nodes.get_upstream_flow", "n2m2+orig1", [A("q_lasts", 2), A("beta"), A("betas", 2), A("q_orig", 1)]))
    for n in (2, 3):
        V.append(Variant("nodes.get_upstream_speed", f"n{n}", [A("q_lasts", n), A("v_lasts", n)]))
        V.append(Variant("nodes.get_downstream_density", f"n{n}", [A("rho_firsts", n)]))
    # links
    for N in vecN:
        V.append(Variant("links.get_flow", f"N{N}", [A("rho", N), A("v", N), A("lanes")]))
        V.append(Variant("links.step_density", f"N{N}", [A("rho", N), A("q", N), A("q_up", N), A("lanes"), A("L"), A("T")]))
        V.append(Variant("links.Veq", f"N{N}", [A("rho", N), A("v_free"), A("rho_crit"), A("a")]))
        base = [A("v", N), A("v_up", N), A("rho", N), A("rho_down", N), A("Veq", N), A("lanes"), A("L"), A("tau"), A("eta"), A("kappa"), A("T")]
        none = ST("none", None)
        V.append(Variant("links.step_speed", f"N{N}", base))
        V.append(Variant("links.step_speed", f"N{N}+merge0d", base + [A("q_ramp"), A("delta")]))
        V.append(Variant("links.step_speed", f"N{N}+merge1", base + [A("q_ramp", 1), A("delta")]))
        V.append(Variant("links.step_speed", f"N{N}+drop", base + [none, none, A("lanes_drop"), A("phi"), A("rho_crit")]))
        V.append(Variant("links.step_speed", f"N{N}+merge1+drop", base + [A("q_ramp", 1), A("delta"), A("lanes_drop"), A("phi"), A("rho_crit")]))
        for vsl in _vsl_subsets(N, thorough):
            V.append(Variant("links.controlled_Veq", f"N{N}vsl{''.join(map(str, vsl)) or '-'}",
                             [A("rho", N), A("v_ctrl", len(vsl) or -1), ST("vsl", list(vsl)), A("alpha"), A("v_free"), A("rho_crit"), A("a")]))
    V.append(Variant("links.Veq", "0d", [A("rho"), A("v_free"), A("rho_crit"), A("a")]))
    # origins / destinations: 0-d and length-1
    for n in (0, 1):
        tag = "0d" if n == 0 else "len1"
        V.append(Variant("origins.step_queue", tag, [A("w", n), A("d", n), A("q", n), A("T")]))
        V.append(Variant("origins.get_mainstream_flow", tag,
                         [A("d", n), A("w", n), A("v_ctrl", n), A("v_first"), A("rho_crit"), A("a"), A("v_free"), A("lanes"), A("T")]))
        for ty in ("in", "out"):
            V.append(Variant("origins.get_ramp_flow", f"{ty}/{tag}",
                             [A("d", n), A("w", n), A("C"), A("r", n), A("rho_max"), A("rho_first"), A("rho_crit"), A("T"), ST("type", ty)]))
        for ty in ("limited", "unlimited"):
            V.append(Variant("origins.get_simplifiedramp_flow", f"{ty}/{tag}",
                             [A("qdes", n), A("d", n), A("w", n), A("C"), A("rho_max"), A("rho_first"), A("rho_crit"), A("T"), ST("type", ty)]))
        V.append(Variant("destinations.get_congestion_free_downstream_density", tag, [A("rho_last"), A("rho_crit")]))
        V.append(Variant("destinations.get_congested_downstream_density", tag, [A("rho_last"), A("rho_destination", n), A("rho_crit")]))
    # engine-level: max and vcat
    for n in (0, 1, 3):
        V.append(Variant("max", f"0,{n or '0d'}", [ST("zero", 0), A("x", n)], kind="util"))
    V.append(Variant("max", "vec,vec", [A("x", 2), A("y", 2)], kind="util"))
    V.append(Variant("vcat", "0d,vec", [A("x"), A("y", 2)], kind="util"))
    V.append(Variant("vcat", "0d,0d,0d", [A("x"), A("y"), A("z")], kind="util"))
    V.append(Variant("vcat", "vec,0d", [A("x", 2), A("y")], kind="util"))
    V.append(Variant("vcat", "single", [A("x")], kind="util"))
    return V


def _vsl_subsets(N, thorough):
    allsub = [s for k in range(N + 1) for s in itertools.combinations(range(N), k)]
    if thorough or N <= 2:
        return allsub
    return [(), (0,), (N - 1,), tuple(range(N)), (0, N - 1)]
