"""discharge -- how every query reaches a solver (DESIGN 2.4 / 2.7).

All transcendental applications (uf_exp / uf_log / uf_pow) are abstracted to fresh reals;
applications whose arguments are *proven* equal (pure NRA query, under non-zero denominators)
share one variable; remaining pairs get Ackermann implications; true real-analysis lemmas are
instantiated on every class.  Every solver query is pure QF_NRA decided by qfnra-nlsat
(fallback: default z3 solver, then cvc5).  `unsat` of the negated goal = holds for all reals.
"""
from __future__ import annotations

import random
import time
from fractions import Fraction

import z3

from .symx import uf_exp, uf_log, uf_pow
from . import zeval

UF_NAMES = {"uf_exp", "uf_log", "uf_pow"}


class Stats:
    def __init__(self):
        self.queries = 0
        self.by_level = {}
        self.by_status = {}
        self.solver_ms = 0.0
        self.cong_queries = 0
        self.cong_merged = 0

    def note(self, status, level, ms):
        self.queries += 1
        self.by_status[status] = self.by_status.get(status, 0) + 1
        if status == "unsat":
            self.by_level[level] = self.by_level.get(level, 0) + 1
        self.solver_ms += ms

    def merge(self, o: "Stats"):
        self.queries += o.queries
        self.solver_ms += o.solver_ms
        self.cong_queries += o.cong_queries
        self.cong_merged += o.cong_merged
        for k, v in o.by_level.items():
            self.by_level[k] = self.by_level.get(k, 0) + v
        for k, v in o.by_status.items():
            self.by_status[k] = self.by_status.get(k, 0) + v

    def asdict(self):
        return {
            "queries": self.queries,
            "unsat_by_ladder_level": self.by_level,
            "by_status": self.by_status,
            "solver_s": round(self.solver_ms / 1000, 3),
            "congruence_queries": self.cong_queries,
            "congruence_merges": self.cong_merged,
        }


def free_vars(t, acc=None, seen=None):
    if acc is None:
        acc, seen = {}, set()
    stack = [t]
    while stack:
        x = stack.pop()
        i = x.get_id()
        if i in seen:
            continue
        seen.add(i)
        if z3.is_const(x):
            if x.decl().kind() == z3.Z3_OP_UNINTERPRETED:
                acc[x.decl().name()] = x
        else:
            stack.extend(x.children())
    return acc


def _postorder_ufs(t, seen, out):
    """collect UF applications, innermost first (iterative)."""
    stack = [(t, False)]
    while stack:
        x, done = stack.pop()
        i = x.get_id()
        if done:
            if z3.is_app(x) and x.num_args() > 0 and x.decl().name() in UF_NAMES:
                out.append(x)
            continue
        if i in seen:
            continue
        seen.add(i)
        stack.append((x, True))
        for c in x.children():
            stack.append((c, False))


def denominators(t, seen=None, out=None):
    if out is None:
        out, seen = [], set()
    stack = [t]
    while stack:
        x = stack.pop()
        i = x.get_id()
        if i in seen:
            continue
        seen.add(i)
        if z3.is_app(x):
            if x.decl().kind() == z3.Z3_OP_DIV:
                d = x.arg(1)
                if not z3.is_rational_value(d):
                    out.append(d)
            stack.extend(x.children())
    return out


def outer_ites(t):
    """outermost real-sorted If subterms."""
    out, seen = [], set()
    stack = [t]
    while stack:
        x = stack.pop()
        i = x.get_id()
        if i in seen:
            continue
        seen.add(i)
        if z3.is_app(x):
            if x.decl().kind() == z3.Z3_OP_ITE and x.sort() == z3.RealSort():
                out.append(x)
                continue
            stack.extend(x.children())
    return out


def abstract_ites(t, prefix="ite"):
    ites = outer_ites(t)
    if not ites:
        return None
    sub = [(x, z3.Real(f"k!{prefix}!{x.get_id()}")) for x in ites]
    return z3.substitute(t, *sub)


def _flatten_mul(x):
    if z3.is_app(x) and x.decl().kind() == z3.Z3_OP_MUL:
        out = []
        for c in x.children():
            out += _flatten_mul(c)
        return out
    return [x]


def abstract_monomials(t):
    """replace every maximal product of >= 2 plain variables by one fresh real, keyed by the
    sorted factor names (sound: an abstraction only forgets facts)."""
    subs, seen, keys = [], set(), {}
    stack = [t]
    while stack:
        x = stack.pop()
        i = x.get_id()
        if i in seen:
            continue
        seen.add(i)
        if z3.is_app(x):
            if x.decl().kind() == z3.Z3_OP_MUL:
                fs = _flatten_mul(x)
                if len(fs) >= 2 and all(z3.is_const(f) and f.decl().kind() == z3.Z3_OP_UNINTERPRETED for f in fs):
                    key = tuple(sorted(f.decl().name() for f in fs))
                    if key not in keys:
                        keys[key] = z3.Real("k!mono!" + "*".join(key))
                    subs.append((x, keys[key]))
                    continue
            stack.extend(x.children())
    return z3.substitute(t, *subs) if subs else None


def nlsat_solver(timeout_ms):
    return z3.TryFor(z3.Tactic("qfnra-nlsat"), timeout_ms).solver()


RECORD = None  # when a list: every (conds, status) decided by z3 is appended (for the cvc5 cross-check)


def _raw_check(conds, timeout_ms, want_model=False, fallback=True):
    """conds: pure NRA formulas. returns (status, model|None)."""
    s = nlsat_solver(timeout_ms)
    s.add(*conds)
    r = s.check()
    if RECORD is not None and r == z3.unsat and len(RECORD) < 400:
        RECORD.append(s.to_smt2() if False else _smt2(conds))
    if r == z3.unknown and fallback:
        s2 = z3.Solver()
        s2.set("timeout", max(1000, timeout_ms // 2))
        s2.add(*conds)
        r2 = s2.check()
        if r2 != z3.unknown:
            s, r = s2, r2
    st = str(r)
    m = None
    if st == "sat" and want_model:
        try:
            m = s.model()
        except z3.Z3Exception:
            m = None
    return st, m


def _smt2(conds):
    s = z3.Solver()
    s.add(*conds)
    return "(set-logic QF_NRA)\n" + s.to_smt2()


def cvc5_check(smt2, tlimit_ms=5000):
    """re-decide a recorded pure-NRA query with the cvc5 wheel. returns 'unsat' | 'sat' | 'unknown' | 'error:...'"""
    import cvc5

    try:
        slv = cvc5.Solver()
        slv.setOption("tlimit-per", str(tlimit_ms))
        p = cvc5.InputParser(slv)
        p.setStringInput(cvc5.InputLanguage.SMT_LIB_2_6, smt2, "q")
        sm = p.getSymbolManager()
        res = "unknown"
        while True:
            c = p.nextCommand()
            if c.isNull():
                break
            r = str(c.invoke(slv, sm)).strip()
            if r in ("sat", "unsat", "unknown"):
                res = r
            elif r.startswith("(error"):
                return "error:" + r[:100]
        return res
    except Exception as e:  # noqa
        return f"error:{type(e).__name__}:{str(e)[:80]}"


class Verdict:
    __slots__ = ("status", "level", "model", "ms", "note")

    def __init__(self, status, level, model=None, ms=0.0, note=""):
        self.status, self.level, self.model, self.ms, self.note = status, level, model, ms, note

    def __repr__(self):
        return f"Verdict({self.status}@{self.level}, {self.ms:.0f}ms)"


class _Class:
    __slots__ = ("fname", "args", "var", "denoms", "members")

    def __init__(self, fname, args, var, denoms):
        self.fname, self.args, self.var, self.denoms, self.members = fname, args, var, list(denoms), 1


class Prover:
    """Shared per topology/program so that one application always maps to one variable."""

    def __init__(self, timeout_ms=20000, seed=0, use_lemmas=True):
        self.timeout_ms = timeout_ms
        self.classes: dict[str, list[_Class]] = {"uf_exp": [], "uf_log": [], "uf_pow": []}
        self.app2var: dict[int, tuple] = {}  # app id -> (app, var, class)
        self.mapping: list = []  # (app, var) for substitute
        self.stats = Stats()
        self.rng = random.Random(seed)
        self.use_lemmas = use_lemmas
        self._cnt = 0
        self._pts: list[dict] = []
        self.extra_lemmas: list = []

    # ---- abstraction ------------------------------------------------------------------
    def _subst(self, t):
        if not self.mapping:
            return t
        return z3.substitute(t, *self.mapping)

    def _points(self, names):
        # a few random float points for the numeric pre-filter
        if not self._pts:
            self._pts = [dict() for _ in range(3)]
        for p in self._pts:
            for n in names:
                if n not in p:
                    p[n] = self.rng.uniform(0.3, 3.0)
        return self._pts

    def _numeric_differs(self, a, b):
        names = set(free_vars(a)) | set(free_vars(b))
        for p in self._points(names):
            try:
                x, y = zeval.evalf(a, p), zeval.evalf(b, p)
            except Exception:
                continue
            if abs(x - y) > 1e-7 * (1 + abs(x) + abs(y)):
                return True
        return False

    def _args_equal(self, args1, den1, args2, den2):
        diffs = []
        for a, b in zip(args1, args2):
            if a.eq(b):
                continue
            d = z3.simplify(a - b)
            if z3.is_rational_value(d) and d.numerator_as_long() == 0:
                continue
            if self._numeric_differs(a, b):
                return False
            diffs.append(a != b)
        if not diffs:
            return True
        dens = [d != 0 for d in list(den1) + list(den2)]
        for a in list(args1) + list(args2):
            dens += [d != 0 for d in denominators(a)]
        self.stats.cong_queries += 1
        t0 = time.time()
        st, _ = _raw_check([z3.Or(*diffs)] + dens, min(self.timeout_ms, 5000), fallback=False)
        self.stats.solver_ms += (time.time() - t0) * 1000
        return st == "unsat"

    def _register(self, app):
        i = app.get_id()
        if i in self.app2var:
            return
        fname = app.decl().name()
        args = [self._subst(app.arg(k)) for k in range(app.num_args())]
        dens = []
        for k in range(app.num_args()):
            dens += [self._subst(d) for d in denominators(app.arg(k))]
        cls = None
        for c in self.classes[fname]:
            if self._args_equal(args, dens, c.args, c.denoms):
                cls = c
                c.members += 1
                for d in dens:
                    if not any(d.eq(e) for e in c.denoms):
                        c.denoms.append(d)
                self.stats.cong_merged += 1
                break
        if cls is None:
            self._cnt += 1
            var = z3.Real(f"k!{fname[3:]}!{self._cnt}")
            cls = _Class(fname, args, var, dens)
            self.classes[fname].append(cls)
        self.app2var[i] = (app, cls.var, cls)
        self.mapping.append((app, cls.var))

    def abstract(self, t):
        out = []
        _postorder_ufs(t, set(), out)
        for app in out:
            self._register(app)
        return self._subst(t)

    def classes_in(self, terms):
        """classes whose variable occurs in the (abstracted) terms."""
        names = set()
        for t in terms:
            names |= set(free_vars(t))
        res = []
        for lst in self.classes.values():
            for c in lst:
                if c.var.decl().name() in names:
                    res.append(c)
        # closure: args of those classes may mention further class vars
        changed = True
        while changed:
            changed = False
            names2 = set(names)
            for c in res:
                for a in c.args:
                    names2 |= set(free_vars(a))
            if names2 != names:
                names = names2
                for lst in self.classes.values():
                    for c in lst:
                        if c.var.decl().name() in names and c not in res:
                            res.append(c)
                changed = True
        return res

    # ---- lemmas -----------------------------------------------------------------------
    def lemmas(self, classes):
        L = []
        ex = [c for c in classes if c.fname == "uf_exp"]
        lg = [c for c in classes if c.fname == "uf_log"]
        pw = [c for c in classes if c.fname == "uf_pow"]
        for c in ex:
            (x,), e = c.args, c.var
            L += [e > 0, z3.Implies(x == 0, e == 1), z3.Implies(x < 0, e < 1), z3.Implies(x > 0, e > 1), e >= 1 + x]
        for i, c in enumerate(ex):
            for d in ex[i + 1:]:
                (x,), (y,) = c.args, d.args
                L += [z3.Implies(x == y, c.var == d.var), z3.Implies(x < y, c.var < d.var), z3.Implies(x > y, c.var > d.var)]
        for c in lg:
            (x,), l = c.args, c.var
            L += [z3.Implies(x == 1, l == 0), z3.Implies(z3.And(x > 0, x < 1), l < 0), z3.Implies(x > 1, l > 0),
                  z3.Implies(x > 0, l <= x - 1)]
        for i, c in enumerate(lg):
            for d in lg[i + 1:]:
                (x,), (y,) = c.args, d.args
                L += [z3.Implies(x == y, c.var == d.var),
                      z3.Implies(z3.And(x > 0, x < y), c.var < d.var),
                      z3.Implies(z3.And(y > 0, y < x), d.var < c.var)]
        for c in pw:
            (x, y), p = c.args, c.var
            L += [z3.Implies(x == 1, p == 1), z3.Implies(y == 1, p == x), z3.Implies(z3.And(y == 0, x != 0), p == 1),
                  z3.Implies(x > 0, p > 0), z3.Implies(x >= 0, p >= 0), z3.Implies(z3.And(x == 0, y > 0), p == 0),
                  z3.Implies(z3.And(x > 1, y > 0), p > 1), z3.Implies(z3.And(x > 0, x < 1, y > 0), p < 1),
                  z3.Implies(z3.And(x >= 0, y == 2), p == x * x),
                  z3.Implies(z3.And(x >= 0, 2 * y == 1), p * p == x)]
        for i, c in enumerate(pw):
            for d in pw[i + 1:]:
                (x, y), (u, w) = c.args, d.args
                L += [z3.Implies(z3.And(x == u, y == w), c.var == d.var),
                      z3.Implies(z3.And(y == w, y > 0, x >= 0, x < u), c.var < d.var),
                      z3.Implies(z3.And(y == w, y > 0, u >= 0, u < x), d.var < c.var)]
        # exp/log inverse on matching arguments
        for c in ex:
            for d in lg:
                (x,), (y,) = c.args, d.args
                L += [z3.Implies(z3.And(y > 0, x == d.var), c.var == y), z3.Implies(y == c.var, d.var == x)]
        return L

    # ---- solving ----------------------------------------------------------------------
    def check_sat(self, conds, timeout_ms=None, want_model=False, lemmas=False):
        ac = [self.abstract(c) for c in conds]
        if lemmas:
            ac += self.lemmas(self.classes_in(ac))
        t0 = time.time()
        st, m = _raw_check(ac, timeout_ms or self.timeout_ms, want_model)
        self.stats.solver_ms += (time.time() - t0) * 1000
        return st, m

    def prove(self, goal, domain=(), pc=(), extra=(), need_model=True, lemma_terms=()):
        """Try to prove `goal` (a z3 Bool). Returns Verdict; status 'unsat' means proven."""
        t0 = time.time()

        def done(status, level, model=None, note=""):
            ms = (time.time() - t0) * 1000
            self.stats.note(status, level, 0)
            return Verdict(status, level, model, ms, note)

        g0 = z3.simplify(goal)
        if z3.is_true(g0):
            return done("unsat", "L0")
        ag = self.abstract(goal)
        g1 = z3.simplify(ag)
        if z3.is_true(g1):
            return done("unsat", "L0")
        neg = z3.Not(ag)
        cls = self.classes_in([ag])
        dens = [d for d in denominators(ag)]
        for c in cls:
            dens += c.denoms
            for a in c.args:
                dens += denominators(a)
        dens = _dedup(dens)
        den_c = [d != 0 for d in dens]
        # L1 with min/max/if terms treated as opaque values (sound: fewer facts), then exact
        full = z3.And(neg, *den_c) if den_c else neg
        ai = abstract_ites(full)
        am = abstract_monomials(ai if ai is not None else full)
        for cand in (am, ai):
            if cand is None:
                continue
            tq = time.time()
            st, m = _raw_check([cand], min(self.timeout_ms, 5000), fallback=False)
            self.stats.solver_ms += (time.time() - tq) * 1000
            if st == "unsat":
                return done("unsat", "L1")
        tq = time.time()
        st, m = _raw_check([neg] + den_c, self.timeout_ms, fallback=False)
        self.stats.solver_ms += (time.time() - tq) * 1000
        if st == "unsat":
            return done("unsat", "L1")
        # L2: domain + lemmas (+ Ackermann inside lemmas)
        adom = [self.abstract(d) for d in domain] + [self.abstract(e) for e in extra]
        for lt in lemma_terms:
            self.abstract(lt)
        rel = _relevant(adom, [ag] + [a for c in cls for a in c.args])
        cls2 = self.classes_in([ag] + rel)
        lem = self.lemmas(cls2) if self.use_lemmas else []
        lem += [self.abstract(e) for e in self.extra_lemmas]
        tq = time.time()
        st2, m2 = _raw_check([neg] + den_c + rel + lem, self.timeout_ms, want_model=not pc and need_model)
        self.stats.solver_ms += (time.time() - tq) * 1000
        if st2 == "unsat":
            return done("unsat", "L2")
        if not pc:
            return done(st2, "L2", self._model(m2, goal, domain) if st2 == "sat" else None)
        apc = [self.abstract(p) for p in pc]
        cls3 = self.classes_in([ag] + rel + apc)
        lem3 = self.lemmas(cls3) if self.use_lemmas else []
        lem3 += [self.abstract(e) for e in self.extra_lemmas]
        tq = time.time()
        st3, m3 = _raw_check([neg] + den_c + adom + apc + lem3, self.timeout_ms, want_model=need_model)
        self.stats.solver_ms += (time.time() - tq) * 1000
        if st3 == "unsat":
            return done("unsat", "L3")
        return done(st3, "L3", self._model(m3, goal, list(domain) + list(pc)) if st3 == "sat" else None)

    def retry_concrete(self, goal, domain, pc, extra, envs, timeout_ms=8000):
        """after an abstract `sat`: fix some variables (typically the model parameters) to concrete values, fold the
        transcendental applications whose arguments became constants to (float-exact) rationals, and solve again.
        A model found this way is consistent with the real exp/log/pow on those applications, so it replays.
        returns model dict or None."""
        for env in envs:
            subs = [(z3.Real(k), zconst_f(v)) for k, v in env.items()]
            if not subs:
                continue
            terms = [z3.Not(goal)] + list(domain) + list(pc) + list(extra)
            terms = [fold_ufs(z3.substitute(t, *subs)) for t in terms]
            p2 = Prover(timeout_ms=timeout_ms, use_lemmas=self.use_lemmas)
            ac = [p2.abstract(t) for t in terms]
            ac += p2.lemmas(p2.classes_in(ac))
            for d in denominators(ac[0]):
                ac.append(d != 0)
            st, m = _raw_check(ac, timeout_ms, want_model=True)
            if st == "sat" and m is not None:
                names = {}
                for t in terms:
                    free_vars(t, names, set())
                out = dict(env)
                for n, v in names.items():
                    if v.sort() == z3.RealSort():
                        out[n] = zeval.z3num_to_float(m.eval(v, model_completion=True))
                return out
        return None

    def _model(self, m, goal, others):
        if m is None:
            return None
        names = dict(free_vars(goal))
        for o in others:
            free_vars(o, names, set())
        out = {}
        for n, v in names.items():
            if v.sort() != z3.RealSort():
                continue
            val = m.eval(v, model_completion=True)
            out[n] = zeval.z3num_to_float(val)
        return out


def zconst_f(v):
    fr = Fraction(float(v))
    return z3.RealVal(f"{fr.numerator}/{fr.denominator}") if fr.denominator != 1 else z3.RealVal(fr.numerator)


def fold_ufs(t):
    """replace uf_exp/uf_log/uf_pow applications whose arguments are numerals by the float value of the real function."""
    import math

    apps = []
    _postorder_ufs(t, set(), apps)
    mapping = []
    for app in apps:
        args = [z3.simplify(z3.substitute(app.arg(k), *mapping) if mapping else app.arg(k)) for k in range(app.num_args())]
        if all(z3.is_rational_value(a) for a in args):
            vals = [float(Fraction(a.numerator_as_long(), a.denominator_as_long())) for a in args]
            fn = app.decl().name()
            try:
                if fn == "uf_exp":
                    r = math.exp(vals[0])
                elif fn == "uf_log":
                    r = math.log(vals[0])
                else:
                    r = math.pow(vals[0], vals[1])
            except (ValueError, OverflowError, ZeroDivisionError):
                continue
            if r == r and abs(r) != float("inf"):
                mapping.append((app, zconst_f(r)))
    return z3.substitute(t, *mapping) if mapping else t


def _dedup(terms):
    seen, out = set(), []
    for t in terms:
        i = t.get_id()
        if i not in seen:
            seen.add(i)
            out.append(t)
    return out


def _relevant(constraints, seeds):
    """constraints transitively sharing a variable with the seeds (dropping others is sound)."""
    names = set()
    for s in seeds:
        names |= set(free_vars(s))
    cons = [(c, set(free_vars(c))) for c in constraints]
    picked = [False] * len(cons)
    changed = True
    while changed:
        changed = False
        for i, (c, vs) in enumerate(cons):
            if not picked[i] and (vs & names or not vs):
                picked[i] = True
                if not vs <= names:
                    names |= vs
                    changed = True
    return [c for (c, _), p in zip(cons, picked) if p]


def check_sat(conds, timeout_ms=3000):
    """Feasibility of a conjunction with UF apps treated as *unrelated* fresh reals
    (over-approximation of satisfiability: 'unsat' is sound)."""
    p = _Feas()
    ac = [p.abstract(c) for c in conds]
    st, _ = _raw_check(ac, timeout_ms, fallback=False)
    return st


class _Feas:
    """cheap syntactic abstraction (no congruence queries)."""

    def __init__(self):
        self.mapping = []
        self.seen = {}
        self.n = 0

    def abstract(self, t):
        out = []
        _postorder_ufs(t, set(), out)
        for app in out:
            i = app.get_id()
            if i in self.seen:
                continue
            key = z3.substitute(app, *self.mapping) if self.mapping else app
            ks = key.sexpr()
            if ks in self.seen:
                var = self.seen[ks]
            else:
                self.n += 1
                var = z3.Real(f"f!{self.n}")
                self.seen[ks] = var
            self.seen[i] = var
            self.mapping.append((app, var))
        return z3.substitute(t, *self.mapping) if self.mapping else t
