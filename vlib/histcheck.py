"""One-step inductive harness and bounded real histories over the construction API
(shared by C08: lookups reflect the current network, and C09: construction builds exactly the
described graph).

Universe: nodes A B C, links L1 L2, origins O1 (ideal) O2 (ramp), destinations D1 D2.
Pre-state (symbolic bits, decided by the fork executor): which of A, B exist, edge A->B carries
L1?, edge B->A carries L2?, O1 at A?, D1 at B?  (C is always fresh).  Then a mask of cached lookups
is read (hence cached and -- by the invariant -- consistent), then ONE mutating call chosen by a
symbolic opcode is executed by the real code, then every public lookup is compared with its
recomputation from net.graph (C08) and net.graph is compared with an abstract set/dict model (C09).
"""
from __future__ import annotations

import itertools

import z3

from . import dfork
from .symx import SB

CACHED = ["nodes_by_name", "links", "in_links", "links_by_name", "nodes_by_link", "origins", "origins_by_name",
          "origins_by_node", "destinations", "destinations_by_name", "destinations_by_node"]


# "distinct": the nodes are called A, B, C and the network is a plain Network;  "shared": node C carries the name "A" as well (two different node objects
# may be given the same name by a user, exactly as the links L1 and L1b; they remain two nodes of the graph)
NODE_NAMING = "distinct"


def set_naming(naming):
    global NODE_NAMING
    assert naming in ("distinct", "shared")
    NODE_NAMING = naming


class Universe:
    def __init__(self):
        import sym_metanet as M

        self.M = M

        class CorridorNetwork(M.Network):
            """what a user may write: a subclass that adds nothing to the construction API"""

        # in the "shared" configuration the network moreover is an instance of a user subclass of Network
        self.Network = CorridorNetwork if NODE_NAMING == "shared" else M.Network
        self.nodes = {k: M.Node(name=("A" if (k == "C" and NODE_NAMING == "shared") else k)) for k in "ABC"}
        mk = lambda nm: M.Link(1, 2, 1.0, 180, 30, 100, 1.8, name=nm)
        self.links = {"L1": mk("L1"), "L2": mk("L2"), "L1b": mk("L1")}  # L1b: a different link object that carries the name "L1"
        self.origins = {"O1": M.Origin(name="O1"), "O2": M.MeteredOnRamp(2000, name="O2")}
        self.dests = {"D1": M.Destination(name="D1"), "D2": M.CongestedDestination(name="D2")}
        self.junk = object()

    def name_of(self, obj):
        for d in (self.nodes, self.links, self.origins, self.dests):
            for k, v in d.items():
                if v is obj:
                    return k
        return repr(obj)


class Model:
    """abstract model: set of nodes, dict edge->link, dict node->origin / destination."""

    def __init__(self):
        self.nodes, self.edges, self.orig, self.dest = [], {}, {}, {}

    def add_node(self, n):
        if n not in self.nodes:
            self.nodes.append(n)

    def add_link(self, u, l, v):
        self.add_node(u)
        self.add_node(v)
        self.edges[(u, v)] = l

    def add_origin(self, o, n):
        self.add_node(n)
        self.orig[n] = o

    def add_dest(self, d, n):
        self.add_node(n)
        self.dest[n] = d

    def copy(self):
        m = Model()
        m.nodes, m.edges, m.orig, m.dest = list(self.nodes), dict(self.edges), dict(self.orig), dict(self.dest)
        return m


# ---- operations: (label, apply_real(net, U), apply_model(model) -> expected exception class or None)
def operations():
    ops = []
    N, Lk, O, D = "ABC", ("L1", "L2"), ("O1", "O2"), ("D1", "D2")

    def op(label, real, model, exc=None):
        ops.append((label, real, model, exc))

    for n in N:
        op(f"add_node({n})", lambda net, U, n=n: net.add_node(U.nodes[n]), lambda m, n=n: m.add_node(n))
    op("add_nodes([C,A])", lambda net, U: net.add_nodes([U.nodes["C"], U.nodes["A"]]), lambda m: (m.add_node("C"), m.add_node("A")))
    for u, v in (("A", "B"), ("B", "A"), ("A", "C"), ("C", "A"), ("B", "C"), ("C", "C"), ("A", "A")):
        for l in Lk:
            op(f"add_link({u},{l},{v})", lambda net, U, u=u, l=l, v=v: net.add_link(U.nodes[u], U.links[l], U.nodes[v]),
               lambda m, u=u, l=l, v=v: m.add_link(u, l, v))
    # replacing the link of an edge by a DIFFERENT object with the SAME name
    op("add_link(A,L1b,B)", lambda net, U: net.add_link(U.nodes["A"], U.links["L1b"], U.nodes["B"]), lambda m: m.add_link("A", "L1b", "B"))
    op("add_path(A-L1b-B)", lambda net, U: net.add_path([U.nodes["A"], U.links["L1b"], U.nodes["B"]]), lambda m: m.add_link("A", "L1b", "B"))
    op("add_links([(A,L2,B),(B,L1,C)])", lambda net, U: net.add_links([(U.nodes["A"], U.links["L2"], U.nodes["B"]), (U.nodes["B"], U.links["L1"], U.nodes["C"])]),
       lambda m: (m.add_link("A", "L2", "B"), m.add_link("B", "L1", "C")))
    op("add_links([(C,L1,A)])", lambda net, U: net.add_links([(U.nodes["C"], U.links["L1"], U.nodes["A"])]), lambda m: m.add_link("C", "L1", "A"))
    for o in O:
        for n in N:
            op(f"add_origin({o},{n})", lambda net, U, o=o, n=n: net.add_origin(U.origins[o], U.nodes[n]), lambda m, o=o, n=n: m.add_origin(o, n))
    for d in D:
        for n in N:
            op(f"add_destination({d},{n})", lambda net, U, d=d, n=n: net.add_destination(U.dests[d], U.nodes[n]), lambda m, d=d, n=n: m.add_dest(d, n))
    # one-shot iterables are legitimate arguments (signature: Iterable)
    op("add_links(generator[(A,L2,B),(B,L1,C)])",
       lambda net, U: net.add_links((x for x in [(U.nodes["A"], U.links["L2"], U.nodes["B"]), (U.nodes["B"], U.links["L1"], U.nodes["C"])])),
       lambda m: (m.add_link("A", "L2", "B"), m.add_link("B", "L1", "C")))
    op("add_links(zip)", lambda net, U: net.add_links(zip([U.nodes["C"]], [U.links["L1"]], [U.nodes["A"]])), lambda m: m.add_link("C", "L1", "A"))
    op("add_nodes(iterator[C,B])", lambda net, U: net.add_nodes(iter([U.nodes["C"], U.nodes["B"]])), lambda m: (m.add_node("C"), m.add_node("B")))
    op("add_path(iterator A-L2-C)", lambda net, U: net.add_path(iter([U.nodes["A"], U.links["L2"], U.nodes["C"]]), origin=U.origins["O1"]),
       lambda m: (m.add_node("A"), m.add_origin("O1", "A"), m.add_link("A", "L2", "C")))

    # paths
    def path_real(seq, o=None, d=None):
        def f(net, U):
            p = [U.nodes[s] if s in U.nodes else U.links[s] if s in U.links else U.junk for s in seq]
            return net.add_path(p, origin=U.origins[o] if o else None, destination=U.dests[d] if d else None)
        return f

    def path_model(seq, o=None, d=None):
        def f(m):
            m.add_node(seq[0])
            if o:
                m.add_origin(o, seq[0])
            for i in range(2, len(seq), 2):
                m.add_link(seq[i - 2], seq[i - 1], seq[i])
            if d:
                m.add_dest(d, seq[-1])
        return f

    for seq, o, d in ((("A", "L1", "C"), None, None), (("C", "L2", "B"), "O2", None), (("A", "L2", "B", "L1", "C"), "O2", "D2"),
                      (("B", "L1", "A"), None, "D2"), (("C", "L1", "C"), "O1", None), (("A", "L1", "B", "L2", "A"), None, None)):
        op(f"add_path({'-'.join(seq)},o={o},d={d})", path_real(seq, o, d), path_model(seq, o, d))
    return ops


def failing_calls():
    """calls that raise after having modified the graph partly: (label, real) -- whatever they leave behind,
    every lookup must afterwards still equal its recomputation from the graph (C08)."""
    F = []
    F.append(("add_links([(A,L2,B),(B,L1)]) second tuple malformed", lambda net, U: net.add_links([(U.nodes["A"], U.links["L2"], U.nodes["B"]), (U.nodes["B"], U.links["L1"])])))
    F.append(("add_nodes([C,None])", lambda net, U: net.add_nodes([U.nodes["C"], None])))
    F.append(("add_link(C,L1,None)", lambda net, U: net.add_link(U.nodes["C"], U.links["L1"], None)))
    F.append(("add_path(A-L1-C-junk)", lambda net, U: net.add_path([U.nodes["A"], U.links["L1"], U.nodes["C"], U.junk], origin=U.origins["O2"])))
    F.append(("add_path(C-L2-B-L1) ends with link", lambda net, U: net.add_path([U.nodes["C"], U.links["L2"], U.nodes["B"], U.links["L1"]], destination=U.dests["D2"])))
    F.append(("add_origin(O2,None)", lambda net, U: net.add_origin(U.origins["O2"], None)))
    return F


def malformed_paths():
    """(label, seq, accepted prefix effect) -- rejected with TypeError/ValueError; no non-node may become a node."""
    return [("single node", ("A",), ValueError), ("starts with link", ("L1", "A"), TypeError), ("ends with link", ("A", "L1"), TypeError),
            ("two nodes in a row", ("A", "B"), TypeError), ("two links in a row", ("A", "L1", "L2", "B"), TypeError),
            ("junk in the middle", ("A", "L1", "?", "L2", "B"), TypeError), ("ends with link after a full hop", ("A", "L1", "B", "L2"), TypeError),
            ("junk first", ("?", "L1", "B"), TypeError), ("node where link expected", ("A", "L1", "B", "C"), TypeError)]


# ---- recomputation from the graph (what every lookup must equal)
def recompute(net):
    g = net.graph
    from sym_metanet.views import DESTINATIONENTRY, LINKENTRY, ORIGINENTRY

    edges = [(u, v, d[LINKENTRY]) for u, v, d in g.edges(data=True)]
    origins = {d[ORIGINENTRY]: n for n, d in g.nodes(data=True) if ORIGINENTRY in d}
    dests = {d[DESTINATIONENTRY]: n for n, d in g.nodes(data=True) if DESTINATIONENTRY in d}
    return {
        "nodes_by_name": {n.name: n for n in g.nodes},
        "links": edges,
        "links_by_name": {l.name: l for _, _, l in edges},
        "nodes_by_link": {l: (u, v) for u, v, l in edges},
        "origins": origins,
        "origins_by_name": {o.name: o for o in origins},
        "origins_by_node": {n: o for o, n in origins.items()},
        "destinations": dests,
        "destinations_by_name": {d.name: d for d in dests},
        "destinations_by_node": {n: d for d, n in dests.items()},
        "in_links": {n: [(u, v, d[LINKENTRY]) for u, v, d in g.in_edges(n, data=True)] for n in g.nodes},
        "out_links": {n: [(u, v, d[LINKENTRY]) for u, v, d in g.out_edges(n, data=True)] for n in g.nodes},
        "elements": [l for _, _, l in edges] + list(origins) + list(dests),
        "nodes": list(g.nodes),
        "in_links_of_all_nodes_as_list": sorted(((id(u), id(v), id(d[LINKENTRY])) for u, v, d in g.in_edges(list(g.nodes), data=True))),
        "out_links_of_all_nodes_as_tuple": sorted(((id(u), id(v), id(d[LINKENTRY])) for u, v, d in g.out_edges(list(g.nodes), data=True))),
    }


def read_lookups(net):
    """what the network's public lookups return now."""
    out = {
        "nodes_by_name": dict(net.nodes_by_name),
        "links": [(u, v, l) for u, v, l in net.links],
        "links_by_name": dict(net.links_by_name),
        "nodes_by_link": dict(net.nodes_by_link),
        "origins": dict(net.origins),
        "origins_by_name": dict(net.origins_by_name),
        "origins_by_node": dict(net.origins_by_node),
        "destinations": dict(net.destinations),
        "destinations_by_name": dict(net.destinations_by_name),
        "destinations_by_node": dict(net.destinations_by_node),
        "in_links": {n: list(net.in_links(n)) for n in net.nodes},
        "out_links": {n: list(net.out_links(n)) for n in net.nodes},
        "elements": list(net.elements),
        "nodes": list(net.nodes),
        # per-node lookups asked for a collection of nodes (nbunch may be an iterable of nodes)
        "in_links_of_all_nodes_as_list": sorted((id(u), id(v), id(l)) for u, v, l in net.in_links(list(net.nodes))) if len(net.nodes) else [],
        "out_links_of_all_nodes_as_tuple": sorted((id(u), id(v), id(l)) for u, v, l in net.out_links(tuple(net.nodes))) if len(net.nodes) else [],
    }
    return out


def same(a, b):
    if isinstance(a, dict):
        return isinstance(b, dict) and len(a) == len(b) and all(k in b and same(v, b[k]) for k, v in a.items())
    if isinstance(a, (list, tuple)):
        return len(a) == len(b) and all(same(x, y) for x, y in zip(a, b))
    return a is b or a == b


def touch(net, mask):
    for k, name in enumerate(CACHED):
        if mask >> k & 1:
            v = getattr(net, name)
            if name in ("links", "in_links"):
                list(v)


def lookup_mismatches(net):
    got, want = read_lookups(net), recompute(net)
    return [k for k in want if not same(got[k], want[k])]


def graph_matches_model(net, U, model):
    """C09: graph == abstract model (identity of objects)."""
    from sym_metanet.views import DESTINATIONENTRY, LINKENTRY, ORIGINENTRY

    g = net.graph
    problems = []
    gn = list(g.nodes)
    if len(gn) != len(model.nodes) or any(U.nodes[n] not in gn for n in model.nodes):
        problems.append(f"nodes {[U.name_of(x) for x in gn]} != {model.nodes}")
    for x in gn:
        if not isinstance(x, U.M.Node):
            problems.append(f"non-node object {U.name_of(x)} ({type(x).__name__}) is a node of the graph")
    ge = {(U.name_of(u), U.name_of(v)): d.get(LINKENTRY) for u, v, d in g.edges(data=True)}
    if set(ge) != set(model.edges):
        problems.append(f"edges {sorted(ge)} != {sorted(model.edges)}")
    else:
        for e, l in model.edges.items():
            if ge[e] is not U.links[l]:
                problems.append(f"edge {e} carries {U.name_of(ge[e])}, expected {l}")
    for entry, table, objs in ((ORIGINENTRY, model.orig, U.origins), (DESTINATIONENTRY, model.dest, U.dests)):
        have = {U.name_of(n): d[entry] for n, d in g.nodes(data=True) if entry in d}
        if set(have) != set(table):
            problems.append(f"{entry} attachments at {sorted(have)} != {sorted(table)}")
        else:
            for n, o in table.items():
                if have[n] is not objs[o]:
                    problems.append(f"{entry} at {n} is {U.name_of(have[n])}, expected {o}")
    # the attachments as the network itself reports them (per-node accessors)
    for acc_name, table, objs in (("origins_by_node", model.orig, U.origins), ("destinations_by_node", model.dest, U.dests)):
        if len(set(table.values())) != len(table):
            continue  # one object attached to two nodes (an invalid network): the origin->node dictionaries cannot represent it
        have = {U.name_of(n): o for n, o in getattr(net, acc_name).items()}
        if set(have) != set(table) or any(have[n] is not objs[o] for n, o in table.items()):
            problems.append(f"net.{acc_name} reports {sorted((n, U.name_of(o)) for n, o in have.items())}, attached were {sorted(table.items())}")
    return problems


PRE_BITS = ["hasA", "hasB", "AB_L1", "BA_L2", "O1_at_A", "D1_at_B"]


def build_pre(U, bits):
    """pre-state from concrete bits -> (net, model). Built with the public API in a fixed order."""
    net = U.Network(name="pre")
    m = Model()
    if bits["hasA"]:
        net.add_node(U.nodes["A"])
        m.add_node("A")
    if bits["hasB"]:
        net.add_node(U.nodes["B"])
        m.add_node("B")
    if bits["AB_L1"]:
        net.add_link(U.nodes["A"], U.links["L1"], U.nodes["B"])
        m.add_link("A", "L1", "B")
    if bits["BA_L2"]:
        net.add_link(U.nodes["B"], U.links["L2"], U.nodes["A"])
        m.add_link("B", "L2", "A")
    if bits["O1_at_A"]:
        net.add_origin(U.origins["O1"], U.nodes["A"])
        m.add_origin("O1", "A")
    if bits["D1_at_B"]:
        net.add_destination(U.dests["D1"], U.nodes["B"])
        m.add_dest("D1", "B")
    return net, m


def symbolic_bits():
    return {b: bool(SB(z3.Bool(b))) for b in PRE_BITS}
