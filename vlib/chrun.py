"""Run a CrossHair harness function and classify the outcome."""
from __future__ import annotations

import os
import re
import subprocess
import sys
import time


def run(module_path, func, timeout_s, env_extra=None, per_path_timeout=None):
    """returns (status, text, seconds); status in {'confirmed', 'refuted', 'unknown', 'error'}"""
    with open(module_path) as f:
        src = f.read().splitlines()
    line = next(i + 2 for i, l in enumerate(src) if l.startswith(f"def {func}("))
    env = dict(os.environ)
    env.update(env_extra or {})
    cmd = [sys.executable, "-m", "crosshair", "check", "--report_all", "--per_condition_timeout", str(timeout_s)]
    if per_path_timeout:
        cmd += ["--per_path_timeout", str(per_path_timeout)]
    cmd.append(f"{module_path}:{line}")
    t0 = time.time()
    try:
        p = subprocess.run(cmd, capture_output=True, text=True, timeout=timeout_s * 3 + 120, env=env)
    except subprocess.TimeoutExpired:
        return "unknown", "crosshair timed out", time.time() - t0
    txt = (p.stdout + p.stderr).strip()
    dt = time.time() - t0
    if "Confirmed over all paths" in txt:
        return "confirmed", txt, dt
    if re.search(r"error: (false|False) when calling|error: .* when calling|false when calling", txt):
        return "refuted", txt, dt
    if "Not confirmed" in txt or "Unable to meet precondition" in txt or "Unknown" in txt:
        return "unknown", txt, dt
    return "error", txt, dt
