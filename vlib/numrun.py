"""Float execution of the real code (encoder validation and replays) and sampling of
admissible numeric environments."""
from __future__ import annotations

import math
import random
import warnings

import numpy as np

from . import runs, topo as T_


def sample_env(topo, rng: random.Random, dyadic=False):
    """a numeric environment inside the admissible domain D (name -> float)."""
    env = {}

    def u(a, b):
        x = rng.uniform(a, b)
        if dyadic:
            x = round(x * 8) / 8 or 0.125
        return x

    for l in topo.links:
        env[f"lam_{l.name}"] = float(rng.randint(1, 4))
        env[f"L_{l.name}"] = u(0.5, 2.0)
        env[f"rhomax_{l.name}"] = u(150, 200)
        env[f"rhocrit_{l.name}"] = u(25, 40)
        env[f"vfree_{l.name}"] = u(90, 130)
        env[f"a_{l.name}"] = u(1.5, 2.5)
        env[f"beta_{l.name}"] = u(0.2, 1.0)
        if l.is_vsl:
            env[f"alpha_{l.name}"] = u(0.0, 0.2)
            for j in range(len(l.vsl)):
                env[f"vctrl_{l.name}[{j}]"] = u(30, 120)
        for i in range(l.N):
            env[f"rho_{l.name}[{i}]"] = u(5, 80)
            env[f"v_{l.name}[{i}]"] = u(20, 120)
    for n, (o, k) in topo.origins.items():
        if k in T_.RAMPS:
            env[f"C_{o}"] = u(1500, 3000)
        if k in T_.QUEUED:
            env[f"w_{o}"] = u(0, 100)
            env[f"d_{o}"] = u(500, 2500)
            if k in ("ramp_in", "ramp_out"):
                env[f"r_{o}"] = u(0.0, 1.0)
            elif k in ("simp_lim", "simp_unl"):
                env[f"q_{o}"] = u(200, 2000)
            else:
                env[f"vctrl_{o}"] = u(30, 120)
    for n, (d, k) in topo.dests.items():
        if k == "cong":
            env[f"d_{d}"] = u(10, 60)
    env.update({"T": 10 / 3600, "tau": 18 / 3600, "eta": 60.0, "kappa": 40.0})
    if dyadic:
        env.update({"T": 1 / 256, "tau": 1 / 128, "eta": 64.0, "kappa": 32.0})
    if topo.delta:
        env["delta"] = 0.0122 if not dyadic else 1 / 64
    if topo.phi:
        env["phi"] = u(1.0, 2.0)
    return env


def float_params(topo, env):
    return {n: env[n] for n in T_.param_names(topo)}


def numpy_float(topo, env, style="array", flags=None, order=None, int_states=False):
    """real NumPy engine on float arrays.  Returns ((el, state) -> list[float], None) or (None, exc)."""
    P = float_params(topo, env)
    if int_states:
        P = {k: (int(round(v)) if k.startswith("lam_") else v) for k, v in P.items()}  # lanes are ints in normal use
    X = runs.float_inputs(topo, env, style, int_states)
    with warnings.catch_warnings():
        warnings.simplefilter("ignore")
        try:
            with np.errstate(all="ignore"):
                built, nxt = runs.step_numpy(topo, P, X, flags, order=order)
        except Exception as e:  # noqa
            return None, e
    out = {}
    for k, v in nxt.items():
        out[k] = None if v is None else [float(x) for x in np.atleast_1d(np.asarray(v, dtype=float)).reshape(-1)]
    return out, None


def casadi_args(F, topo, declared, env):
    bind = runs.binder_level0(topo, declared)
    args = []
    for i in range(F.n_in()):
        n = F.size1_in(i) * F.size2_in(i)
        vals = []
        for k in range(n):
            vals.append(env[bind(i, F.name_in(i), k, n).t.decl().name()])
        args.append(vals)
    return args


def casadi_float(F, args):
    import casadi as cs

    res = F(*[cs.DM(a) if len(a) else cs.DM.zeros(0, 1) for a in args])
    if not isinstance(res, (list, tuple)):
        res = [res]
    return [(F.name_out(i), [float(x) for x in np.asarray(res[i].full()).reshape(-1)]) for i in range(F.n_out())]


def close(a, b, rtol=1e-9, atol=1e-9):
    if a is None or b is None:
        return False
    if math.isnan(a) or math.isnan(b):
        return math.isnan(a) and math.isnan(b)
    if math.isinf(a) or math.isinf(b):
        return a == b
    return abs(a - b) <= atol + rtol * max(abs(a), abs(b))


def exact_params(topo, seed=0):
    """numeric parameter values for which every constant the code can fold is exact in binary floating
    point (all divisors are powers of two; turn rates of a node sum to 1), so that float constant
    folding coincides with real arithmetic."""
    rng = random.Random(seed)
    P = {}
    for k, l in enumerate(topo.links):
        P[f"lam_{l.name}"] = float(rng.choice([1, 2, 4]))
        P[f"L_{l.name}"] = rng.choice([0.5, 1.0, 2.0])
        P[f"rhomax_{l.name}"] = 160.0
        P[f"rhocrit_{l.name}"] = 32.0
        P[f"vfree_{l.name}"] = 128.0
        P[f"a_{l.name}"] = (2.0, 0.5)[(k + seed) % 2]
        if l.is_vsl:
            P[f"alpha_{l.name}"] = 0.125
    for n in topo.nodes:
        outs = topo.out_links(n)
        rem = 1.0
        for j, l in enumerate(outs):
            if j == len(outs) - 1:
                P[f"beta_{l.name}"] = rem
            else:
                P[f"beta_{l.name}"] = rem / 2
                rem /= 2
    for n, (o, k) in topo.origins.items():
        if k in T_.RAMPS:
            P[f"C_{o}"] = float(rng.choice([1024, 2048, 1536]))
    P.update({"T": 1 / 256, "tau": 1 / 128, "eta": 64.0, "kappa": 32.0})
    if topo.delta:
        P["delta"] = 1 / 64
    if topo.phi:
        P["phi"] = 1.5
    return P
