"""Topology descriptions ("programs"), the builder that turns one into a real
sym_metanet.Network through the public API only, and the naming of solver variables.

Variable names (shared by the NumPy-symbolic run, the CasADi IR translation and the oracle):
  states      rho_<link>[i]  v_<link>[i]  w_<origin>
  actions     vctrl_<link>[j] (j-th *limited* segment)   r_<o> | q_<o> | vctrl_<o>
  disturbances d_<origin>  d_<dest>
  link params lam_<l> L_<l> rhomax_<l> rhocrit_<l> vfree_<l> a_<l> beta_<l> alpha_<l>
  origin      C_<o>
  model       T tau eta kappa delta phi
"""
from __future__ import annotations

import dataclasses
import itertools
import json
from dataclasses import dataclass, field
from typing import Optional

ORIGIN_KINDS = ("ideal", "main", "ramp_in", "ramp_out", "simp_lim", "simp_unl")
QUEUED = ("main", "ramp_in", "ramp_out", "simp_lim", "simp_unl")
RAMPS = ("ramp_in", "ramp_out", "simp_lim", "simp_unl")
DEST_KINDS = ("free", "cong")
LINK_PARAMS = ("lam", "L", "rhomax", "rhocrit", "vfree", "a", "beta")
MODEL_PARAMS = ("T", "tau", "eta", "kappa")


@dataclass(frozen=True)
class LinkSpec:
    name: str
    u: str
    v: str
    N: int = 2
    vsl: Optional[tuple] = None  # None: plain Link; tuple of 0-based segment indices: LinkWithVsl

    @property
    def is_vsl(self):
        return self.vsl is not None


@dataclass
class Topo:
    name: str
    nodes: list
    links: list
    origins: dict = field(default_factory=dict)  # node -> (origin name, kind)
    dests: dict = field(default_factory=dict)  # node -> (dest name, kind)
    delta: bool = False
    phi: bool = False

    # ---- structure helpers (pure description, independent of the repository)
    def out_links(self, node):
        return [l for l in self.links if l.u == node]

    def in_links(self, node):
        return [l for l in self.links if l.v == node]

    def link(self, name):
        return next(l for l in self.links if l.name == name)

    def origin_at(self, node):
        return self.origins.get(node)

    def dest_at(self, node):
        return self.dests.get(node)

    def to_json(self):
        return {
            "name": self.name,
            "nodes": list(self.nodes),
            "links": [[l.name, l.u, l.v, l.N, list(l.vsl) if l.vsl is not None else None] for l in self.links],
            "origins": {k: list(v) for k, v in self.origins.items()},
            "dests": {k: list(v) for k, v in self.dests.items()},
            "delta": self.delta,
            "phi": self.phi,
        }

    @staticmethod
    def from_json(j):
        return Topo(
            j["name"],
            list(j["nodes"]),
            [LinkSpec(n, u, v, N, tuple(vsl) if vsl is not None else None) for n, u, v, N, vsl in j["links"]],
            {k: tuple(v) for k, v in j["origins"].items()},
            {k: tuple(v) for k, v in j["dests"].items()},
            j.get("delta", False),
            j.get("phi", False),
        )

    def describe(self):
        ls = ", ".join(f"{l.u}-{l.name}({l.N}{'v' if l.is_vsl else ''})->{l.v}" for l in self.links)
        os_ = ", ".join(f"{k}@{n}" for n, (_, k) in self.origins.items())
        ds = ", ".join(f"{k}@{n}" for n, (_, k) in self.dests.items())
        return f"{self.name}: [{ls}] origins[{os_}] dests[{ds}] delta={int(self.delta)} phi={int(self.phi)}"

    def spec_valid(self):
        """The nine documented conditions, evaluated on the description (C06 spec)."""
        names = [l.name for l in self.links] + [o for o, _ in self.origins.values()] + [d for d, _ in self.dests.values()]
        if len(set(names)) != len(names):
            return False
        for n in self.nodes:
            nin, nout = len(self.in_links(n)), len(self.out_links(n))
            o, d = self.origins.get(n), self.dests.get(n)
            if o and d:
                return False
            if nin == 0 and nout == 0:
                return False
            if nin == 0 and not o:
                return False
            if nout == 0 and not d:
                return False
            if o and o[1] not in RAMPS and nin > 0:
                return False
            if o and nout > 1:
                return False
            if d and nin > 1:
                return False
            if d and nout > 0:
                return False
        return True


# ----------------------------------------------------------------------------------------
# variable naming
# ----------------------------------------------------------------------------------------
def param_names(topo: Topo):
    """all parameter names of a topology, in a fixed order."""
    names = []
    for l in topo.links:
        for p in LINK_PARAMS:
            names.append(f"{p}_{l.name}")
        if l.is_vsl:
            names.append(f"alpha_{l.name}")
    for n, (o, k) in topo.origins.items():
        if k in RAMPS:
            names.append(f"C_{o}")
    names += list(MODEL_PARAMS)
    if topo.delta:
        names.append("delta")
    if topo.phi:
        names.append("phi")
    return names


def action_name(kind):
    return {"main": "v_ctrl", "ramp_in": "r", "ramp_out": "r", "simp_lim": "q", "simp_unl": "q"}[kind]


def input_layout(topo: Topo):
    """(group, element name, variable name, size) for every independent input, in no particular order."""
    out = []
    for l in topo.links:
        out.append(("x", l.name, "rho", l.N))
        out.append(("x", l.name, "v", l.N))
        if l.is_vsl:
            out.append(("u", l.name, "v_ctrl", len(l.vsl)))
    for n, (o, k) in topo.origins.items():
        if k in QUEUED:
            out.append(("x", o, "w", 1))
            out.append(("u", o, action_name(k), 1))
            out.append(("d", o, "d", 1))
    for n, (d, k) in topo.dests.items():
        if k == "cong":
            out.append(("d", d, "d", 1))
    return out


def zname(varname, elname, i=None):
    base = f"{varname}_{elname}".replace("v_ctrl", "vctrl")
    return base if i is None else f"{base}[{i}]"


# ----------------------------------------------------------------------------------------
# builder
# ----------------------------------------------------------------------------------------
class Built:
    def __init__(self, net, nodes, links, origins, dests):
        self.net, self.nodes, self.links, self.origins, self.dests = net, nodes, links, origins, dests

    def element(self, name):
        for d in (self.links, self.origins, self.dests):
            if name in d:
                return d[name]
        raise KeyError(name)


def build(topo: Topo, P: dict, order: Optional[list] = None, rename=None, via_paths=False) -> Built:
    """Build a real Network.  P maps parameter names (param_names) to values of whatever
    type the engine at hand accepts (floats, symx.S, casadi symbols).

    order: optional list of construction steps [("node", n) | ("link", l) | ("origin", n) | ("dest", n)];
    default: nodes, links, origins, destinations in description order."""
    from sym_metanet import (
        CongestedDestination, Destination, Link, LinkWithVsl, MainstreamOrigin, MeteredOnRamp,
        Network, Node, Origin, SimplifiedMeteredOnRamp,
    )

    rn = rename or (lambda s: s)

    def fresh(text):
        """an equal but not interned copy (as read from a file or built at run time): code must compare strings by value"""
        return "".join([text[:1], text[1:]]) if len(text) > 1 else text
    nodes = {n: Node(name=rn(n)) for n in topo.nodes}
    links = {}
    for l in topo.links:
        args = dict(
            nb_segments=l.N, lanes=P[f"lam_{l.name}"], length=P[f"L_{l.name}"],
            maximum_density=P[f"rhomax_{l.name}"], critical_density=P[f"rhocrit_{l.name}"],
            free_flow_velocity=P[f"vfree_{l.name}"], a=P[f"a_{l.name}"], turnrate=P[f"beta_{l.name}"],
            name=rn(l.name),
        )
        if l.is_vsl:
            links[l.name] = LinkWithVsl(**args, segments_with_vsl=set(l.vsl), alpha=P[f"alpha_{l.name}"])
        else:
            links[l.name] = Link(**args)
    origins = {}
    for n, (o, k) in topo.origins.items():
        if k == "ideal":
            origins[o] = Origin(name=rn(o))
        elif k == "main":
            origins[o] = MainstreamOrigin(name=rn(o))
        elif k in ("ramp_in", "ramp_out"):
            origins[o] = MeteredOnRamp(P[f"C_{o}"], flow_eq_type=fresh(k[5:]), name=rn(o))
        else:
            origins[o] = SimplifiedMeteredOnRamp(
                P[f"C_{o}"], flow_eq_type=fresh("limited" if k == "simp_lim" else "unlimited"), name=rn(o))
    dests = {}
    for n, (d, k) in topo.dests.items():
        dests[d] = Destination(name=rn(d)) if k == "free" else CongestedDestination(name=rn(d))

    net = Network(name=rn(topo.name))
    if order is None:
        order = [("node", n) for n in topo.nodes] + [("link", l.name) for l in topo.links]
        order += [("origin", n) for n in topo.origins] + [("dest", n) for n in topo.dests]
    for kind, key in order:
        if kind == "node":
            net.add_node(nodes[key])
        elif kind == "link":
            l = topo.link(key)
            net.add_link(nodes[l.u], links[key], nodes[l.v])
        elif kind == "links":  # bulk
            net.add_links([(nodes[topo.link(k).u], links[k], nodes[topo.link(k).v]) for k in key])
        elif kind == "nodes":
            net.add_nodes([nodes[k] for k in key])
        elif kind == "origin":
            net.add_origin(origins[topo.origins[key][0]], nodes[key])
        elif kind == "dest":
            net.add_destination(dests[topo.dests[key][0]], nodes[key])
        elif kind == "path":
            # key: (list of alternating node/link names, origin node or None, dest node or None)
            seq, on, dn = key
            path = [nodes[s] if i % 2 == 0 else links[s] for i, s in enumerate(seq)]
            net.add_path(path, origin=origins[topo.origins[on][0]] if on else None,
                         destination=dests[topo.dests[dn][0]] if dn else None)
        else:
            raise ValueError(kind)
    return Built(net, nodes, links, origins, dests)


# keywords a caller may pass along with the model parameters (the upstream tests pass their whole parameter dictionary):
# they name link/origin constructor parameters, carry deliberately absurd values and must simply be ignored by a step
UNRELATED_KEYWORDS = {"rho_max": 7.0, "rho_crit": 3.0, "lanes": 9, "L": 77.0, "C": 1.0, "v_free": 5.0, "a": 9.0, "turnrate": 0.125,
                      "alpha": 3.0, "capacity": 2.0, "maximum_density": 1.0}


def model_kwargs(topo: Topo, P: dict):
    kw = dict(UNRELATED_KEYWORDS)
    kw.update({k: P[k] for k in MODEL_PARAMS})
    if topo.delta:
        kw["delta"] = P["delta"]
    if topo.phi:
        kw["phi"] = P["phi"]
    return kw
