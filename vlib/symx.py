"""symx -- symbolic scalars / arrays that the *real* NumPy engine and element layer of
sym-metanet accept unchanged, plus the re-execution based fork executor.

S        immutable scalar wrapping a z3 Real term (exact Fraction when concrete)
SB       symbolic boolean; ``__bool__`` is the fork point
SymArray ndarray subclass, dtype=object, elements S; NumPy's own indexing / views /
         broadcasting are used, element-wise math is dispatched here
explore  DFS driver that re-executes a function until its decision tree is exhausted

Reals have no NaN/inf: every partial operation records a *definedness obligation*
(together with the path condition at that point) in the active context.
"""
from __future__ import annotations

import itertools
import math
import numbers
from fractions import Fraction

import numpy as np
import z3

R = z3.RealSort()
uf_exp = z3.Function("uf_exp", R, R)
uf_log = z3.Function("uf_log", R, R)
uf_pow = z3.Function("uf_pow", R, R, R)


class UnsupportedOp(Exception):
    """A NumPy/Python operation the symbolic layer does not model -> check is inconclusive."""


class Inconclusive(Exception):
    pass


def frac_of(x) -> Fraction:
    if isinstance(x, Fraction):
        return x
    if isinstance(x, bool):
        return Fraction(int(x))
    if isinstance(x, numbers.Integral):
        return Fraction(int(x))
    if isinstance(x, (float, np.floating)):
        if math.isnan(x) or math.isinf(x):
            raise UnsupportedOp(f"non-finite constant {x!r} in symbolic run")
        return Fraction(float(x))
    raise TypeError(type(x))


def zconst(fr: Fraction):
    return z3.RealVal(f"{fr.numerator}/{fr.denominator}") if fr.denominator != 1 else z3.RealVal(fr.numerator)


# ----------------------------------------------------------------------------------------
# context (path condition, decisions, obligations)
# ----------------------------------------------------------------------------------------
class Ctx:
    def __init__(self, prefix=(), domain=(), feasible=None, max_depth=64):
        self.prefix = list(prefix)
        self.decisions: list[bool] = []
        self.forks: list[list[bool]] = []  # prefixes still to explore
        self.pc: list = []
        self.domain = list(domain)
        self.obligations: list = []  # (kind, z3 bool that must hold, pc tuple, note)
        self.feasible = feasible or default_feasible
        self.max_depth = max_depth
        self.n_feas_queries = 0

    def branch(self, cond) -> bool:
        """Decide a symbolic condition on this path."""
        cs = z3.simplify(cond)
        if z3.is_true(cs):
            return True
        if z3.is_false(cs):
            return False
        i = len(self.decisions)
        if i < len(self.prefix):
            val = self.prefix[i]
        else:
            if i >= self.max_depth:
                raise Inconclusive("fork depth bound exceeded")
            self.n_feas_queries += 2
            t_ok = self.feasible(self.domain + self.pc + [cond])
            f_ok = self.feasible(self.domain + self.pc + [z3.Not(cond)])
            if t_ok and f_ok:
                val = True
                self.forks.append(self.decisions + [False])
            elif t_ok:
                val = True
            elif f_ok:
                val = False
            else:  # path itself infeasible (can happen after 'unknown'): keep going on True
                val = True
        self.decisions.append(val)
        self.pc.append(cond if val else z3.Not(cond))
        return val

    def oblige(self, kind, cond, note=""):
        c = z3.simplify(cond)
        if z3.is_true(c):
            return
        self.obligations.append((kind, cond, tuple(self.pc), note))


_CTX: list[Ctx] = []


def ctx() -> Ctx:
    if not _CTX:
        # a symbolic branch outside an exploration would silently follow one side only
        raise Inconclusive("symbolic branch outside an exploration (wrap the run in symx.explore)")
    return _CTX[-1]


def in_exploration() -> bool:
    return bool(_CTX)


def default_feasible(conds) -> bool:
    from . import discharge

    r = discharge.check_sat(conds, timeout_ms=3000)
    return r != "unsat"


class PathResult:
    __slots__ = ("decisions", "pc", "obligations", "value", "exc", "n_feas")

    def __init__(self, decisions, pc, obligations, value, exc, n_feas):
        self.decisions, self.pc, self.obligations = decisions, pc, obligations
        self.value, self.exc, self.n_feas = value, exc, n_feas


def explore(fn, domain=(), feasible=None, max_paths=10000, max_depth=64, prefixes=None,
            catch=(Exception,)):
    """Run fn() on every feasible path. Yields PathResult (exceptions in `catch` captured)."""
    stack = [list(p) for p in (prefixes if prefixes is not None else [[]])]
    n = 0
    while stack:
        prefix = stack.pop()
        c = Ctx(prefix, domain, feasible, max_depth)
        _CTX.append(c)
        val = exc = None
        try:
            val = fn()
        except (UnsupportedOp, Inconclusive):
            raise
        except catch as e:  # noqa
            exc = e
        finally:
            _CTX.pop()
        stack.extend(c.forks)
        n += 1
        if n > max_paths:
            raise Inconclusive(f"more than {max_paths} paths")
        yield PathResult(c.decisions, list(c.pc), c.obligations, val, exc, c.n_feas_queries)


# ----------------------------------------------------------------------------------------
# scalars
# ----------------------------------------------------------------------------------------
def _is_num(x):
    return isinstance(x, (numbers.Real, np.floating, np.integer, Fraction)) and not isinstance(x, S)


class SB:
    """Symbolic boolean."""

    __slots__ = ("t", "d")
    __array_priority__ = 1000

    def __init__(self, t, d=None):
        self.t = t
        self.d = d

    def __bool__(self):
        c = ctx()
        if self.d is not None:
            c.oblige("branch", self.d, "branch on a value that may be NaN")
        return c.branch(self.t)

    def __and__(self, o):
        return SB(z3.And(self.t, asbool(o)), _conj(self.d, getattr(o, "d", None)))

    __rand__ = __and__

    def __or__(self, o):
        return SB(z3.Or(self.t, asbool(o)), _conj(self.d, getattr(o, "d", None)))

    __ror__ = __or__

    def __invert__(self):
        return SB(z3.Not(self.t), self.d)

    def __repr__(self):
        return f"SB({self.t})"


def asbool(o):
    if isinstance(o, SB):
        return o.t
    if isinstance(o, (bool, np.bool_)):
        return z3.BoolVal(bool(o))
    raise UnsupportedOp(f"boolean op with {type(o)}")


class S:
    """Symbolic real scalar (immutable)."""

    __slots__ = ("t", "c", "d", "inf")
    __array_priority__ = 1000

    def __init__(self, t=None, c=None, d=None, inf=0):
        self.inf = inf  # +1 / -1: an infinite float constant (only min/max treat it specially; anything else is undefined)
        # d: definedness condition (z3 Bool; None = always a finite real).  A float run yields
        # a finite number for this value iff d holds (NaN/inf are "undefined").
        self.d = d
        if c is not None:
            self.c = c
            self.t = zconst(c)
        else:
            self.t = t
            self.c = None

    # ---- construction helpers
    @staticmethod
    def var(name):
        return S(z3.Real(name))

    @staticmethod
    def lift(x):
        if isinstance(x, S):
            return x
        if _is_num(x):
            if isinstance(x, (float, np.floating)) and math.isinf(x):
                return S(z3.RealVal(0), d=z3.BoolVal(False), inf=1 if x > 0 else -1)
            return S(c=frac_of(x))
        if isinstance(x, np.ndarray) and x.ndim == 0:
            return S.lift(x.item())
        return None

    def __repr__(self):
        return f"S({self.t})"

    def __hash__(self):
        return id(self)

    # ---- arithmetic
    def _bin(self, o, op):
        if isinstance(o, np.ndarray):
            return NotImplemented
        o2 = S.lift(o)
        if o2 is None:
            return NotImplemented
        return op(self, o2)

    def __add__(self, o):
        return self._bin(o, _add)

    def __radd__(self, o):
        return self._bin(o, lambda a, b: _add(b, a))

    def __sub__(self, o):
        return self._bin(o, _sub)

    def __rsub__(self, o):
        return self._bin(o, lambda a, b: _sub(b, a))

    def __mul__(self, o):
        return self._bin(o, _mul)

    def __rmul__(self, o):
        return self._bin(o, lambda a, b: _mul(b, a))

    def __truediv__(self, o):
        return self._bin(o, _div)

    def __rtruediv__(self, o):
        return self._bin(o, lambda a, b: _div(b, a))

    def __pow__(self, o):
        return self._bin(o, _pow)

    def __rpow__(self, o):
        return self._bin(o, lambda a, b: _pow(b, a))

    def __neg__(self):
        return S(c=-self.c) if self.c is not None else S(-self.t, d=self.d)

    def __pos__(self):
        return self

    def __abs__(self):
        if self.c is not None:
            return S(c=abs(self.c))
        return S(z3.If(self.t >= 0, self.t, -self.t), d=self.d)

    # ---- numpy object-loop methods
    def exp(self):
        return _exp(self)

    def log(self):
        return _log(self)

    def sqrt(self):
        return _pow(self, S(c=Fraction(1, 2)))

    def conjugate(self):
        return self

    # ---- comparisons
    def _cmp(self, o, op):
        if isinstance(o, np.ndarray):
            return NotImplemented
        o2 = S.lift(o)
        if o2 is None:
            return NotImplemented
        if self.c is not None and o2.c is not None:
            return bool(op(self.c, o2.c))
        return SB(op(self.t, o2.t), _conj(self.d, o2.d))

    def __lt__(self, o):
        return self._cmp(o, lambda a, b: a < b)

    def __le__(self, o):
        return self._cmp(o, lambda a, b: a <= b)

    def __gt__(self, o):
        return self._cmp(o, lambda a, b: a > b)

    def __ge__(self, o):
        return self._cmp(o, lambda a, b: a >= b)

    def __eq__(self, o):
        if o is None:
            return False
        return self._cmp(o, lambda a, b: a == b)

    def __ne__(self, o):
        if o is None:
            return True
        return self._cmp(o, lambda a, b: a != b)

    def __float__(self):
        if self.c is not None:
            return float(self.c)
        raise UnsupportedOp("float() of a symbolic scalar")

    def __int__(self):
        if self.c is not None and self.c.denominator == 1:
            return int(self.c)
        raise UnsupportedOp("int() of a symbolic scalar")

    # ---- numpy protocol
    def __array_ufunc__(self, ufunc, method, *inputs, **kwargs):
        return _array_ufunc(ufunc, method, inputs, kwargs)

    def __array_function__(self, func, types, args, kwargs):
        return _array_function(func, args, kwargs)

    # indexing a scalar like a length-1 vector (x[0], x[-1]) is what 0-d/1-elem values allow in numpy
    @property
    def shape(self):
        return ()

    @property
    def ndim(self):
        return 0

    @property
    def size(self):
        return 1


def _conj(*ds):
    ds = [d for d in ds if d is not None]
    if not ds:
        return None
    if len(ds) == 1:
        return ds[0]
    return z3.And(*ds)


def _add(a, b):
    if a.c is not None and b.c is not None:
        return S(c=a.c + b.c)
    if a.c == 0:
        return b
    if b.c == 0:
        return a
    return S(a.t + b.t, d=_conj(a.d, b.d))


def _sub(a, b):
    if a.c is not None and b.c is not None:
        return S(c=a.c - b.c)
    if b.c == 0:
        return a
    return S(a.t - b.t, d=_conj(a.d, b.d))


def _mul(a, b):
    if a.c is not None and b.c is not None:
        return S(c=a.c * b.c)
    if a.c == 1:
        return b
    if b.c == 1:
        return a
    return S(a.t * b.t, d=_conj(a.d, b.d))


def _div(a, b):
    if b.c is not None:
        if b.c == 0:
            # float semantics: x/0 = inf/nan -> not finite
            return S(a.t / b.t, d=z3.BoolVal(False))
        if a.c is not None:
            return S(c=a.c / b.c)
        if b.c == 1:
            return a
        return S(a.t / b.t, d=a.d)
    return S(a.t / b.t, d=_conj(a.d, b.d, b.t != 0))


def _pow(a, b):
    if b.c is not None and b.c.denominator == 1 and -4 <= b.c <= 4:
        n = int(b.c)
        if a.c is not None and (n >= 0 or a.c != 0):
            return S(c=a.c**n)
        if n == 0:
            return S(c=Fraction(1))
        p = a
        for _ in range(abs(n) - 1):
            p = _mul(p, a)
        if n < 0:
            return _div(S(c=Fraction(1)), p)
        return p
    if a.c is not None and b.c is not None and a.c == 1:
        return S(c=Fraction(1))
    # real power: finite for a>0, or a==0 with b>0 (numpy: nan for negative base w/ non-integer
    # exponent, inf for 0**negative)
    if b.c is not None:
        own = (a.t >= 0) if b.c > 0 else (a.t > 0)
    else:
        own = z3.Or(a.t > 0, z3.And(a.t == 0, b.t > 0))
    return S(uf_pow(a.t, b.t), d=_conj(a.d, b.d, own))


def _exp(a):
    if a.c == 0:
        return S(c=Fraction(1))
    return S(uf_exp(a.t), d=a.d)


def _log(a):
    if a.c == 1:
        return S(c=Fraction(0))
    return S(uf_log(a.t), d=_conj(a.d, a.t > 0))


def _min(a, b):
    if a.inf or b.inf:
        if a.inf > 0:
            return b
        if b.inf > 0:
            return a
        return a if a.inf < 0 else b
    if a.c is not None and b.c is not None:
        return a if a.c <= b.c else b
    return S(z3.If(a.t <= b.t, a.t, b.t), d=_conj(a.d, b.d))


def _max(a, b):
    if a.inf or b.inf:
        if a.inf < 0:
            return b
        if b.inf < 0:
            return a
        return a if a.inf > 0 else b
    if a.c is not None and b.c is not None:
        return a if a.c >= b.c else b
    return S(z3.If(a.t >= b.t, a.t, b.t), d=_conj(a.d, b.d))


def _cmpfun(op):
    def f(a, b):
        if a.c is not None and b.c is not None:
            return bool(op(a.c, b.c))
        return SB(op(a.t, b.t), _conj(a.d, b.d))

    return f


def _where(c, a, b):
    if isinstance(c, (bool, np.bool_)):
        return a if c else b
    da = z3.If(c.t, a.d if a.d is not None else z3.BoolVal(True), b.d if b.d is not None else z3.BoolVal(True))
    if a.d is None and b.d is None:
        da = None
    return S(z3.If(c.t, a.t, b.t), d=_conj(c.d, da))


_BIN = {
    np.add: _add,
    np.subtract: _sub,
    np.multiply: _mul,
    np.true_divide: _div,
    np.power: _pow,
    np.float_power: _pow,
    np.minimum: _min,
    np.fmin: _min,
    np.maximum: _max,
    np.fmax: _max,
    np.less: _cmpfun(lambda a, b: a < b),
    np.less_equal: _cmpfun(lambda a, b: a <= b),
    np.greater: _cmpfun(lambda a, b: a > b),
    np.greater_equal: _cmpfun(lambda a, b: a >= b),
    np.equal: _cmpfun(lambda a, b: a == b),
    np.not_equal: _cmpfun(lambda a, b: a != b),
}
_UN = {
    np.negative: lambda a: -a,
    np.positive: lambda a: a,
    np.square: lambda a: _mul(a, a),
    np.exp: _exp,
    np.log: _log,
    np.sqrt: lambda a: a.sqrt(),
    np.absolute: abs,
    np.reciprocal: lambda a: _div(S(c=Fraction(1)), a),
    np.conjugate: lambda a: a,
    np.isnan: lambda a: False,
    np.isinf: lambda a: False,
    np.isfinite: lambda a: True,
}


def _plain(x):
    """argument -> plain object ndarray (views for SymArray) or python scalar."""
    if isinstance(x, SymArray):
        return x.view(np.ndarray)
    if isinstance(x, np.ndarray):
        return x
    if isinstance(x, (S, SB)):
        a = np.empty((), dtype=object)
        a[()] = x
        return a
    if isinstance(x, (list, tuple)):
        # may contain S: build object array manually
        try:
            return np.array([_plain(e) if isinstance(e, (S, SB, SymArray)) else e for e in x], dtype=object)
        except Exception as e:  # ragged
            raise UnsupportedOp(f"sequence argument: {e}")
    return np.asarray(x)


def _lift_elem(e):
    if isinstance(e, (S, SB)):
        return e
    if isinstance(e, (bool, np.bool_)):
        return bool(e)
    s = S.lift(e)
    if s is None:
        raise UnsupportedOp(f"array element of type {type(e)}")
    return s


def _wrap(a):
    if isinstance(a, np.ndarray):
        if a.ndim == 0:
            return a[()]
        if a.dtype == object:
            return a.view(SymArray)
    return a


def _array_ufunc(ufunc, method, inputs, kwargs):
    out = kwargs.pop("out", None)
    for k, v in kwargs.items():
        if k in ("casting", "order", "subok", "dtype", "axis", "keepdims", "initial"):
            continue
        if k == "where" and v is True:
            continue
        raise UnsupportedOp(f"ufunc kwarg {k}")
    if method == "__call__":
        if ufunc in _BIN and len(inputs) == 2:
            f = _BIN[ufunc]
            a, b = (_plain(x) for x in inputs)
            bc = np.broadcast(a, b)
            res = np.empty(bc.shape, dtype=object)
            flat = res.reshape(-1) if res.ndim else None
            if res.ndim == 0:
                res[()] = f(_lift_elem(a[()] if a.ndim == 0 else a.flat[0]), _lift_elem(b[()] if b.ndim == 0 else b.flat[0]))
            else:
                for i, (x, y) in enumerate(bc):
                    flat[i] = f(_lift_elem(x), _lift_elem(y))
        elif ufunc in _UN and len(inputs) == 1:
            f = _UN[ufunc]
            a = _plain(inputs[0])
            res = np.empty(a.shape, dtype=object)
            if a.ndim == 0:
                res[()] = f(_lift_elem(a[()]))
            else:
                flat = res.reshape(-1)
                for i, x in enumerate(a.flat):
                    flat[i] = f(_lift_elem(x))
        else:
            raise UnsupportedOp(f"ufunc {ufunc.__name__}")
        if out is not None:
            (o,) = out if isinstance(out, tuple) else (out,)
            po = _plain(o)
            po[...] = res
            return o
        return _wrap(res)
    if method == "reduce":
        if ufunc not in (np.add, np.minimum, np.maximum, np.multiply):
            raise UnsupportedOp(f"reduce of {ufunc.__name__}")
        f = _BIN[ufunc]
        a = _plain(inputs[0])
        axis = kwargs.get("axis", 0)
        if kwargs.get("keepdims"):
            raise UnsupportedOp("keepdims")
        if a.ndim == 0:
            return _lift_elem(a[()])
        if a.ndim == 1 and axis in (0, None, -1, (0,)):
            if a.shape[0] == 0:
                if ufunc is np.add:
                    return S(c=Fraction(0))
                raise UnsupportedOp("reduce of empty")
            acc = _lift_elem(a[0])
            for x in a[1:]:
                acc = f(acc, _lift_elem(x))
            return acc
        if a.ndim == 2 and axis in (0, 1):
            other = a.shape[1 - axis]
            res = np.empty(other, dtype=object)
            for j in range(other):
                col = a[:, j] if axis == 0 else a[j, :]
                acc = _lift_elem(col[0])
                for x in col[1:]:
                    acc = f(acc, _lift_elem(x))
                res[j] = acc
            return _wrap(res)
        raise UnsupportedOp(f"reduce over ndim={a.ndim} axis={axis}")
    raise UnsupportedOp(f"ufunc method {method}")


_FUNCS_PASS = None


def _array_function(func, args, kwargs):
    global _FUNCS_PASS
    if _FUNCS_PASS is None:
        _FUNCS_PASS = {
            np.hstack, np.vstack, np.concatenate, np.stack, np.atleast_1d, np.atleast_2d,
            np.ravel, np.reshape, np.squeeze, np.transpose, np.copy, np.flip, np.roll,
            np.expand_dims, np.broadcast_to, np.take, np.append, np.insert, np.delete, np.tile,
            np.repeat, np.column_stack, np.moveaxis, np.swapaxes, np.diff, np.cumsum, np.dot,
            np.full_like, np.empty_like, np.zeros_like, np.ones_like, np.shape, np.size, np.ndim,
            np.array_equal, np.result_type, np.can_cast, np.asarray, np.asanyarray, np.array,
        }
    if func is np.sum:
        a = args[0]
        axis = kwargs.get("axis", args[1] if len(args) > 1 else None)
        pa = _plain(a)
        if pa.ndim == 0 and axis is not None:
            raise np.exceptions.AxisError(f"axis {axis} is out of bounds for array of dimension 0")
        if axis is None and pa.ndim > 1:
            pa = pa.reshape(-1)
            axis = 0
        return _array_ufunc(np.add, "reduce", (pa,), {"axis": 0 if axis is None else axis})
    if func in (np.min, np.max, np.amin, np.amax):
        uf = np.minimum if func in (np.min, np.amin) else np.maximum
        a = args[0]
        axis = kwargs.get("axis", args[1] if len(args) > 1 else None)
        pa = _plain(a)
        if axis is None and pa.ndim > 1:
            pa = pa.reshape(-1)
            axis = 0
        return _array_ufunc(uf, "reduce", (pa,), {"axis": 0 if axis is None else axis})
    if func is np.where and len(args) == 3:
        c, a, b = (_plain(x) for x in args)
        bc = np.broadcast(c, a, b)
        res = np.empty(bc.shape, dtype=object)
        if res.ndim == 0:
            res[()] = _where(c[()], _lift_elem(a[()]), _lift_elem(b[()]))
        else:
            flat = res.reshape(-1)
            for i, (x, y, z) in enumerate(bc):
                flat[i] = _where(x, _lift_elem(y), _lift_elem(z))
        return _wrap(res)
    if func is np.clip:
        a = args[0]
        lo = args[1] if len(args) > 1 else kwargs.get("a_min", kwargs.get("min"))
        hi = args[2] if len(args) > 2 else kwargs.get("a_max", kwargs.get("max"))
        r = a
        if lo is not None:
            r = _array_ufunc(np.maximum, "__call__", (r, lo), {})
        if hi is not None:
            r = _array_ufunc(np.minimum, "__call__", (r, hi), {})
        return r
    if func in _FUNCS_PASS:
        def un(x):
            if isinstance(x, (SymArray, S, SB)):
                return _plain(x)
            if isinstance(x, (list, tuple)):
                return type(x)(un(e) for e in x)
            return x

        res = func(*un(args), **{k: un(v) for k, v in kwargs.items()})
        if isinstance(res, np.ndarray) and res.dtype == object and res.ndim > 0:
            return res.view(SymArray)
        if isinstance(res, (list, tuple)):
            return type(res)(r.view(SymArray) if isinstance(r, np.ndarray) and r.dtype == object and r.ndim > 0 else r for r in res)
        if isinstance(res, np.ndarray) and res.ndim == 0 and res.dtype == object:
            return res[()]
        return res
    raise UnsupportedOp(f"numpy function {getattr(func, '__name__', func)}")


class SymArray(np.ndarray):
    """Object ndarray of S elements. Indexing/views/broadcast are NumPy's own."""

    __array_priority__ = 100

    def __array_ufunc__(self, ufunc, method, *inputs, **kwargs):
        return _array_ufunc(ufunc, method, inputs, kwargs)

    def __array_function__(self, func, types, args, kwargs):
        return _array_function(func, args, kwargs)

    def __setitem__(self, key, value):
        # numeric dtypes refuse to store an ndim>0 array into a scalar slot (object dtype would nest)
        plain = self.view(np.ndarray)
        try:
            slot = plain[key]
        except Exception:
            slot = None
        scalar_slot = slot is not None and not isinstance(slot, np.ndarray)
        if scalar_slot and isinstance(value, np.ndarray) and value.ndim > 0:
            raise ValueError("setting an array element with a sequence.")
        if isinstance(value, (S, SB)) or _is_num(value):
            v = _lift_elem(value)
            if scalar_slot:
                plain[key] = v
            else:
                plain[key] = _fill_like(slot, v)
            return
        pv = _plain(value)
        if pv.dtype != object:
            pv2 = np.empty(pv.shape, dtype=object)
            for idx in np.ndindex(pv.shape):
                pv2[idx] = _lift_elem(pv[idx])
            pv = pv2
        if scalar_slot:
            plain[key] = pv[()]
        else:
            plain[key] = pv

    def __bool__(self):
        if self.size == 1:
            return bool(self.view(np.ndarray).reshape(-1)[0])
        raise ValueError("The truth value of an array with more than one element is ambiguous.")

    def __float__(self):
        raise UnsupportedOp("float() of symbolic array")

    @staticmethod
    def of(elems):
        a = np.empty(len(elems), dtype=object)
        for i, e in enumerate(elems):
            a[i] = _lift_elem(e)
        return a.view(SymArray)

    @staticmethod
    def vars(prefix, n):
        return SymArray.of([S.var(f"{prefix}[{i}]") for i in range(n)])


def _fill_like(slot, v):
    a = np.empty(slot.shape, dtype=object)
    for idx in np.ndindex(slot.shape):
        a[idx] = v
    return a


# ----------------------------------------------------------------------------------------
# helpers used by the checks
# ----------------------------------------------------------------------------------------
def leaves(x):
    """Flatten a value produced by the symbolic run into a list of S (or raise)."""
    if isinstance(x, S):
        return [x]
    if isinstance(x, SB):
        raise UnsupportedOp("boolean where a real was expected")
    if _is_num(x):
        return [S.lift(x)]
    if isinstance(x, np.ndarray):
        out = []
        for e in x.reshape(-1) if x.ndim else [x[()]]:
            if isinstance(e, np.ndarray):
                raise UnsupportedOp("nested array element")
            out.append(_lift_elem(e))
        return out
    raise UnsupportedOp(f"cannot flatten {type(x)}")


def shape_of(x):
    if isinstance(x, np.ndarray):
        return tuple(x.shape)
    if isinstance(x, S) or _is_num(x):
        return ()
    return getattr(x, "shape", None)
