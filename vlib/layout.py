"""Expected argument/result layout of Engine.to_function at the three compactness levels,
derived from the description + the network's own enumeration order (net.elements) and the
documented concatenation (per element; per variable name; single x, u, d vectors)."""
from __future__ import annotations

from . import topo as T_
from .runs import _is_single


def element_order(topo, built):
    """names of elements in the network's own enumeration order: links, origins, destinations."""
    inv = {}
    for d in (built.links, built.origins, built.dests):
        for k, v in d.items():
            inv[id(v)] = k
    return [inv[id(el)] for el in built.net.elements]


def _kind(topo, el):
    for l in topo.links:
        if l.name == el:
            return ("link", l)
    for n, (o, k) in topo.origins.items():
        if o == el:
            return ("origin", k)
    for n, (d, k) in topo.dests.items():
        if d == el:
            return ("dest", k)
    raise KeyError(el)


def variables_of(topo, el):
    """(states, actions, disturbances) as lists of (varname, size) for one element."""
    kind, x = _kind(topo, el)
    if kind == "link":
        return [("rho", x.N), ("v", x.N)], ([("v_ctrl", len(x.vsl))] if x.is_vsl else []), []
    if kind == "origin":
        if x == "ideal":
            return [], [], []
        return [("w", 1)], [(T_.action_name(x), 1)], [("d", 1)]
    return [], [], ([("d", 1)] if x == "cong" else [])


def znames(topo, el, var, size):
    base = T_.zname(var, el)
    if _is_single(topo, el):
        return [base]
    return [f"{base}[{i}]" for i in range(size)]


def expected(topo, built, compact, declared=(), more_out=False):
    """returns (inputs, outputs): lists of (name, [z-name | ('next', el, st, i) | ('q', link, i) | ('qo', origin)])."""
    order = element_order(topo, built)
    groups = {"x": [], "u": [], "d": []}
    for el in order:
        st, ac, di = variables_of(topo, el)
        for g, lst in (("x", st), ("u", ac), ("d", di)):
            for var, size in lst:
                if size == 0 and compact <= 0:
                    groups[g].append((el, var, size))
                else:
                    groups[g].append((el, var, size))
    ins, outs = [], []
    nexts = [(el, var, size) for (el, var, size) in groups["x"]]
    if compact <= 0:
        for g in ("x", "u", "d"):
            for el, var, size in groups[g]:
                ins.append((f"{var}_{el}", znames(topo, el, var, size)))
        for p in declared:
            ins.append((p, [p]) if isinstance(p, str) else (p[0], list(p[1])))  # (name, [symbols]) = one declared vector
        for el, var, size in nexts:
            outs.append((f"{var}_{el}+", [("next", el, var, i) for i in range(size)]))
    else:
        byname = {}
        for g in ("x", "u", "d"):
            names = []
            for el, var, size in groups[g]:
                if var not in names:
                    names.append(var)
            byname[g] = [(var, [z for el, v2, size in groups[g] if v2 == var for z in znames(topo, el, v2, size)]) for var in names]
        onames = []
        for el, var, size in nexts:
            if var not in onames:
                onames.append(var)
        obyname = [(var + "+", [("next", el, v2, i) for el, v2, size in nexts if v2 == var for i in range(size)]) for var in onames]
        if compact == 1:
            for g in ("x", "u", "d"):
                ins += byname[g]
            outs += obyname
        else:
            for g in ("x", "u", "d"):
                ins.append((g, [z for _, zs in byname[g] for z in zs]))
            outs.append(("x+", [o for _, os_ in obyname for o in os_]))
        if declared:
            ins.append(("p", [z for p in declared for z in ([p] if isinstance(p, str) else p[1])]))
    if more_out:
        links = [el for el in order if _kind(topo, el)[0] == "link"]
        origins = [el for el in order if _kind(topo, el)[0] == "origin"]
        ql = [(f"q_{el}", [("q", el, i) for i in range(_kind(topo, el)[1].N)]) for el in links]
        qo = [(f"q_o_{el}", [("qo", el)]) for el in origins]
        if compact <= 0:
            outs += ql + qo
        elif compact == 1:
            outs.append(("q", [x for _, xs in ql for x in xs]))
            outs.append(("q_o", [x for _, xs in qo for x in xs]))
        else:
            outs.append(("q", [x for _, xs in ql for x in xs] + [x for _, xs in qo for x in xs]))
    return ins, outs


def binder(ins):
    """bind() for sx2smt from an expected input layout (by position; names/sizes must agree)."""
    from .symx import S, Inconclusive

    def bind(i_in, name, k, n):
        if i_in >= len(ins):
            raise Inconclusive(f"function has unexpected input #{i_in} '{name}'")
        nm, zs = ins[i_in]
        if n != len(zs) or k >= len(zs):
            raise Inconclusive(f"input #{i_in} '{name}' has size {n}, layout expects {len(zs)}")
        return S.var(zs[k])

    return bind
