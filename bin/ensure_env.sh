#!/bin/bash
# Idempotently create the overlay venv /verif/.venv (python of /venv + z3, cvc5, crosshair from the offline wheelhouse).
set -e
V=/verif/.venv
if [ -x "$V/bin/python" ] && [ -f "$V/.ready" ]; then exit 0; fi
exec 9>/verif/.venv.lock
flock 9
if [ -x "$V/bin/python" ] && [ -f "$V/.ready" ]; then exit 0; fi
rm -rf "$V"
/venv/bin/python -m venv "$V" >/dev/null
SP=$("$V/bin/python" -c "import sysconfig;print(sysconfig.get_paths()['purelib'])")
echo "import site; site.addsitedir('/venv/lib/python3.12/site-packages')" > "$SP/_venv_overlay.pth"
PIP_NO_INDEX=1 "$V/bin/python" -m pip install -q --no-index --find-links /opt/veriftools/wheels z3-solver cvc5 crosshair-tool >/dev/null 2>&1 || \
PIP_NO_INDEX=1 "$V/bin/python" -m pip install --no-index --find-links /opt/veriftools/wheels z3-solver cvc5 crosshair-tool
"$V/bin/python" -c "import z3, cvc5, crosshair, numpy, casadi, networkx" 
touch "$V/.ready"
